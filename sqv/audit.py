"""Audit hook for C02: flags (and vetoes) file, process, network, import and dynamic-code events during eval."""
import collections
import os
import sys

FLAG_PREFIX = ('open', 'os.', 'subprocess.', 'socket.', 'ctypes.', 'shutil.', 'tempfile.', 'glob.', 'pathlib.', 'urllib.',
               'http.', 'sqlite3.', 'mmap.', 'fcntl.', 'pty.', 'marshal.', 'pickle.', 'code.__new__', 'function.__new__',
               'builtins.input', 'sys.settrace', 'sys.setprofile', 'sys.addaudithook', 'webbrowser.', 'ftplib.', 'smtplib.',
               'imaplib.', 'poplib.', 'telnetlib.', 'nntplib.', 'resource.', 'signal.', 'syslog.', 'winreg.', 'msvcrt.')
CODE_EVENTS = ('import', 'exec', 'compile')


class Veto(RuntimeError):
    pass


class Audit:
    def __init__(self):
        self.armed = False
        self.flagged = []                      # (event, detail)
        self.tally = collections.Counter()     # informational events
        self.installed = False
        self.pkg_dir = None
        self.strict = False        # set after the warm-up

    def install(self, pkg_dir):
        self.pkg_dir = os.path.realpath(pkg_dir)
        if not self.installed:
            sys.addaudithook(self._hook)
            self.installed = True

    def _requester_is_package(self):
        """Who is responsible for a code event (import / exec / compile)?

        Walk outwards from the event.  If import machinery is met first, the frame that requested the import decides:
        the package under test (flag) or a library importing lazily for itself (informational).  If a frame of the
        package is met first, the package reached the compiler / exec, possibly through a stdlib helper (flag).
        """
        f = sys._getframe(2)
        in_import_machinery = False
        while f is not None:
            fn = f.f_code.co_filename
            if 'importlib' in fn or fn.startswith('<frozen importlib'):
                in_import_machinery = True
            elif os.sep + 'sqv' + os.sep in fn:
                pass
            elif fn.startswith(self.pkg_dir + os.sep) and os.sep + 'ply' + os.sep not in fn:
                return True, in_import_machinery
            elif in_import_machinery:
                return False, True          # a library (or the stdlib) importing on its own behalf
            f = f.f_back
        return False, in_import_machinery

    def _hook(self, event, args):
        if not self.armed:
            return
        if event in CODE_EVENTS:
            self.armed = False
            try:
                mine, _ = self._requester_is_package()
            finally:
                self.armed = True
            if mine:
                self.flagged.append((event, repr(args)[:120]))
                raise Veto(f'sqv: vetoed {event}')
            if self.strict:
                # a warmed-up process: every library has loaded what it needs, so an import / exec / compile that appears only now
                # was caused by the program's data (e.g. a codec name handed to str.encode)
                self.flagged.append((event + ':late', repr(args)[:120]))
                raise Veto(f'sqv: vetoed late {event}')
            self.tally['library:' + event] += 1
            return
        if event.startswith(FLAG_PREFIX):
            self.flagged.append((event, repr(args)[:120]))
            raise Veto(f'sqv: vetoed {event}')
        self.tally[event] += 1


AUDIT = Audit()
