"""Hypothesis driver: collect-then-classify, shrink one root cause at a time, resume behind it."""
import time

from hypothesis import HealthCheck, Phase, given, seed as hseed, settings

from sqv import core


class Result:
    """what one executed case reports back"""
    __slots__ = ('failures', 'nontrivial', 'classes', 'key', 'sample', 'discard')

    def __init__(self, failures=(), nontrivial=False, classes=(), key=None, sample=None, discard=False):
        self.failures = list(failures)
        self.nontrivial = nontrivial
        self.classes = classes
        self.key = key
        self.sample = sample
        self.discard = discard


class _Found(Exception):
    pass


def drive(strategy, check, stats, *, seed, max_examples, known_sigs=(), shrink_budget_s=25.0, rounds=4,
          shrink=True):
    """Draw `max_examples` cases from `strategy`, run `check(case) -> Result` on each and record into `stats`.

    Failures whose signature matches `known_sigs` are recorded but never stop the search.  The first failure with
    another signature is shrunk by Hypothesis (within `shrink_budget_s`), recorded, excluded, and the search is
    resumed with a fresh derived seed (at most `rounds` times) so one shallow defect does not hide the next.
    """
    excluded = list(known_sigs)

    def is_excluded(sig):
        return any(core.sig_matches(p, sig) for p in excluded)

    for rnd in range(rounds + 1):
        state = {'target': None, 'best': None, 't0': None}
        phases = [Phase.generate, Phase.shrink] if shrink else [Phase.generate]

        @hseed(core.derive_seed(seed, 'round', rnd))
        @settings(max_examples=max_examples, database=None, deadline=None, derandomize=False,
                  report_multiple_bugs=False, phases=phases, print_blob=False,
                  suppress_health_check=list(HealthCheck))
        @given(strategy)
        def test(case):
            if state['best'] is not None and time.time() - state['t0'] > shrink_budget_s:
                return          # shrink budget used up: remaining shrink attempts "pass" without being executed
            import resource
            rss0 = resource.getrusage(resource.RUSAGE_SELF).ru_maxrss
            try:
                res = check(case)
            except MemoryError:
                # a case that exhausts the worker's address-space limit (strings are uncapped - known finding D2b - so a
                # program can double one at every recursion level) is inconclusive, never a verdict
                import gc
                gc.collect()
                stats.inconclusive += 1
                stats.add('discarded:memory')
                return
            if res.discard:
                stats.add('discarded')
                return
            if res.failures and resource.getrusage(resource.RUSAGE_SELF).ru_maxrss > max(rss0, 2 << 20):
                # the case pushed the worker to a new memory peak above 2 GiB: a MemoryError may have been swallowed as an ordinary
                # exception on one side only, so whatever it "found" is inconclusive
                stats.inconclusive += 1
                stats.add('discarded:memory')
                return
            stats.case(key=res.key, nontrivial=res.nontrivial, classes=res.classes, sample=res.sample)
            new = None
            for f in res.failures:
                stats.fail(f)
                if new is None and not is_excluded(f.signature):
                    new = f
            if new is None:
                return
            if state['target'] is None:
                state['target'] = new.signature
                state['t0'] = time.time()
            if new.signature != state['target']:
                return
            if state['best'] is not None and time.time() - state['t0'] > shrink_budget_s:
                return          # budget used up: let the remaining shrink attempts "pass" so the shrinker stops
            if state['best'] is None or new.size() <= state['best'].size():
                state['best'] = new
            raise _Found()

        try:
            test()
        except BaseException as e:  # noqa
            if state['best'] is None:
                if isinstance(e, (KeyboardInterrupt, SystemExit)):
                    raise
                raise core.HarnessError(f'check raised {type(e).__name__}: {e}') from e
        if state['best'] is None:
            break
        stats.fail(state['best'])
        excluded.append(state['target'])
    return stats
