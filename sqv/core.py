"""Shared machinery: statistics, failures, known findings, evidence, shard pool.

A property module (sqv/props/cNN.py) provides

    ID, RULE, DESIGN_REF, ASSUMPTIONS
    jobs(tier, seed)      -> list of picklable job descriptors
    run_job(job)          -> Stats           (executed in a forked worker)
    run_case(case)        -> list[Failure]   (plain Python, used by --replay and by the seed/known witnesses)
    finish(stats, tier)   -> optional: extra coverage keys (dict)

Everything a job does is a function of the job descriptor (which carries the seed) and of the working tree.
"""
import collections
import hashlib
import json
import multiprocessing as mp
import os
import sys
import time
import traceback
from decimal import Decimal

VERIF = os.path.dirname(os.path.dirname(os.path.abspath(__file__)))
REPO = os.environ.get('SQV_REPO', '/repo')
NPROC = int(os.environ.get('SQV_NPROC', '16'))


class HarnessError(Exception):
    """the harness (not the code under test) is broken: exit 2, never VIOLATION"""


# ---------------------------------------------------------------------------------------------- JSON encoding
def enc(v, _depth=0):
    """tagged JSON encoding of the values that occur in cases (Decimal/int/float/str/bool/None/list/tuple/dict)"""
    if _depth > 60:
        return {'$': 'deep'}
    if v is None or isinstance(v, (bool, str)):
        return v
    if isinstance(v, Decimal):
        return {'$': 'D', 'v': str(v)}
    if isinstance(v, int):
        if abs(v) < 2 ** 53:
            return v
        return {'$': 'I', 'v': str(v)}
    if isinstance(v, float):
        return {'$': 'F', 'v': repr(v)}
    if isinstance(v, list):
        return [enc(x, _depth + 1) for x in v]
    if isinstance(v, tuple):
        return {'$': 'T', 'v': [enc(x, _depth + 1) for x in v]}
    if isinstance(v, dict):
        if all(isinstance(k, str) and k != '$' for k in v):
            return {k: enc(x, _depth + 1) for k, x in v.items()}
        return {'$': 'M', 'v': [[enc(k, _depth + 1), enc(x, _depth + 1)] for k, x in v.items()]}
    if isinstance(v, slice):
        return {'$': 'S', 'v': [enc(v.start), enc(v.stop), enc(v.step)]}
    if isinstance(v, (set, frozenset)):
        return {'$': 'T', 'v': sorted((enc(x, _depth + 1) for x in v), key=repr)}
    return {'$': 'R', 'v': repr(v)[:200]}


def dec(v):
    if isinstance(v, list):
        return [dec(x) for x in v]
    if isinstance(v, dict):
        t = v.get('$')
        if t is None:
            return {k: dec(x) for k, x in v.items()}
        if t == 'D':
            return Decimal(v['v'])
        if t == 'I':
            return int(v['v'])
        if t == 'F':
            return float(v['v'])
        if t == 'T':
            return tuple(dec(x) for x in v['v'])
        if t == 'M':
            return {dec(k): dec(x) for k, x in v['v']}
        if t == 'S':
            return slice(*[dec(x) for x in v['v']])
        if t == 'R':
            return v['v']
        return v
    return v


def jdump(obj):
    return json.dumps(obj, sort_keys=True, ensure_ascii=True, default=lambda o: enc(o))


def case_hash(key):
    """64-bit hash of a canonical key (str or anything json-able)"""
    if not isinstance(key, str):
        key = jdump(key)
    return int.from_bytes(hashlib.blake2b(key.encode('utf-8', 'surrogatepass'), digest_size=8).digest(), 'big')


# ---------------------------------------------------------------------------------------------- stats
class Failure:
    __slots__ = ('signature', 'message', 'case')

    def __init__(self, signature, message, case):
        self.signature = signature
        self.message = message
        self.case = case

    def __repr__(self):
        return f'Failure({self.signature!r}, {self.message!r})'

    def size(self):
        return len(jdump(self.case))


class Stats:
    """mergeable record of what a job covered"""

    MAX_SAMPLES = 6
    MAX_HASHES = 4_000_000

    def __init__(self):
        self.evaluations = 0
        self.nt_hashes = set()      # hashes of non-trivial cases (distinctness measured)
        self.nt_counted = 0         # non-trivial cases that are distinct by construction (exhaustive enumerations)
        self.classes = collections.Counter()
        self.excluded = collections.Counter()   # cases/shapes excluded by construction because of a known finding
        self.samples = []
        self.failures = {}          # signature -> (count, smallest Failure)
        self.extra = {}             # property-specific mergeable values: ints are added, sets united, lists extended (capped)
        self.inconclusive = 0

    # -- recording
    def case(self, key=None, nontrivial=False, classes=(), sample=None, distinct_by_construction=False):
        self.evaluations += 1
        for c in classes:
            self.classes[c] += 1
        if nontrivial:
            if distinct_by_construction:
                self.nt_counted += 1
            elif len(self.nt_hashes) < self.MAX_HASHES:
                self.nt_hashes.add(case_hash(key) if not isinstance(key, int) else key)
            if sample is not None and len(self.samples) < self.MAX_SAMPLES and sample not in self.samples:
                self.samples.append(sample)

    def fail(self, failure):
        cnt, best = self.failures.get(failure.signature, (0, None))
        if best is None or failure.size() < best.size():
            best = failure
        self.failures[failure.signature] = (cnt + 1, best)

    def add(self, key, n=1):
        self.extra[key] = self.extra.get(key, 0) + n

    def union(self, key, items):
        self.extra.setdefault(key, set()).update(items)

    def maxi(self, key, value):
        k = 'max:' + key
        if k not in self.extra or value > self.extra[k]:
            self.extra[k] = value

    # -- merging
    def merge(self, other):
        self.evaluations += other.evaluations
        self.nt_hashes |= other.nt_hashes
        self.nt_counted += other.nt_counted
        self.classes.update(other.classes)
        self.excluded.update(other.excluded)
        self.inconclusive += other.inconclusive
        for s in other.samples:
            if len(self.samples) < self.MAX_SAMPLES * 2 and s not in self.samples:
                self.samples.append(s)
        for sig, (cnt, f) in other.failures.items():
            c0, b0 = self.failures.get(sig, (0, None))
            if b0 is None or f.size() < b0.size():
                b0 = f
            self.failures[sig] = (c0 + cnt, b0)
        for k, v in other.extra.items():
            if k.startswith('max:'):
                if k not in self.extra or v > self.extra[k]:
                    self.extra[k] = v
            elif isinstance(v, set):
                self.extra.setdefault(k, set()).update(v)
            elif isinstance(v, list):
                cur = self.extra.setdefault(k, [])
                cur.extend(v[:max(0, 40 - len(cur))])
            elif isinstance(v, dict):
                cur = self.extra.setdefault(k, {})
                for kk, vv in v.items():
                    cur[kk] = cur.get(kk, 0) + vv
            else:
                self.extra[k] = self.extra.get(k, 0) + v

    @property
    def distinct_nontrivial(self):
        return len(self.nt_hashes) + self.nt_counted


# ---------------------------------------------------------------------------------------------- known findings
class Known:
    def __init__(self, prop, signature, witness, text):
        self.prop, self.signature, self.witness, self.text = prop, signature, witness, text


def load_known(path=None):
    """-> (known: list[Known], fixed: list[str])"""
    path = path or os.path.join(VERIF, 'KNOWN_FINDINGS.txt')
    known, fixed = [], []
    if not os.path.exists(path):
        return known, fixed
    for line in open(path, encoding='utf-8'):
        line = line.strip()
        if not line or line.startswith('#'):
            continue
        if line.startswith('known:'):
            head, _, text = line[len('known:'):].partition('::')
            kv = dict(part.split('=', 1) for part in head.split() if '=' in part)
            known.append(Known(kv['property'], kv['signature'], kv.get('witness'), text.strip()))
        elif line.startswith('fixed:'):
            fixed.append(line)
    return known, fixed


def sig_matches(pattern, signature):
    """a known signature matches exactly, or as a prefix when it ends with '*'"""
    if pattern.endswith('*'):
        return signature.startswith(pattern[:-1])
    return pattern == signature


# ---------------------------------------------------------------------------------------------- shard pool
def _run_one(args):
    modname, job = args
    import importlib
    mod = importlib.import_module(modname)
    try:
        # harness self-protection: a generated program may try to build astronomically large strings; with an address-space
        # limit that ends in MemoryError inside the case (discarded by sqv.hyp) instead of the kernel killing the worker
        import resource
        lim = int(os.environ.get('SQV_WORKER_AS_GB', '6')) << 30
        soft, hard = resource.getrlimit(resource.RLIMIT_AS)
        if soft == resource.RLIM_INFINITY or soft > lim:
            resource.setrlimit(resource.RLIMIT_AS, (lim, hard))
    except (ValueError, OSError, ImportError):
        pass
    try:
        st = mod.run_job(job)
        return ('ok', st)
    except HarnessError as e:
        return ('harness', f'{e}\n{traceback.format_exc()[-1500:]}')
    except BaseException as e:  # noqa
        return ('harness', f'{type(e).__name__}: {e}\n{traceback.format_exc()[-2500:]}')


def run_jobs(modname, jobs, nproc=None):
    """run jobs in forked workers, merge their Stats"""
    total = Stats()
    nproc = min(nproc or NPROC, max(1, len(jobs)))
    if nproc == 1 or os.environ.get('SQV_INPROC'):
        results = (_run_one((modname, j)) for j in jobs)
        for kind, val in results:
            if kind != 'ok':
                raise HarnessError(val)
            total.merge(val)
        return total
    # a ProcessPoolExecutor (not multiprocessing.Pool): when a worker dies abruptly (segmentation fault, fatal interpreter
    # error, kill) the pending futures fail with BrokenProcessPool instead of the whole run waiting for ever
    import concurrent.futures as cf
    from concurrent.futures.process import BrokenProcessPool
    ctx = mp.get_context('fork')
    ex = cf.ProcessPoolExecutor(max_workers=nproc, mp_context=ctx)
    try:
        futs = {ex.submit(_run_one, (modname, j)): j for j in jobs}
        for fut in cf.as_completed(futs):
            try:
                kind, val = fut.result()
            except BrokenProcessPool:
                unfinished = [repr(j)[:120] for f, j in futs.items() if not f.done() or f.exception() is not None]
                raise HarnessError('a worker process died abruptly (crash of the interpreter?) while these jobs were running or queued: '
                                   + '; '.join(unfinished[:20]) + ' - rerun with SQV_INPROC=1 to locate the case')
            if kind != 'ok':
                raise HarnessError(val)
            total.merge(val)
    except BaseException:
        procs = list((getattr(ex, '_processes', None) or {}).values())
        ex.shutdown(wait=False, cancel_futures=True)
        for pr in procs:
            try:
                if pr.is_alive():
                    pr.terminate()
            except Exception:  # noqa
                pass
        raise
    ex.shutdown(wait=True)
    return total


# ---------------------------------------------------------------------------------------------- seeds
def derive_seed(seed, *parts):
    h = hashlib.blake2b(repr((seed,) + parts).encode(), digest_size=6).digest()
    return int.from_bytes(h, 'big')


def env_seed():
    try:
        return int(os.environ.get('VERIF_SEED', '1'))
    except ValueError:
        return 1


# ---------------------------------------------------------------------------------------------- evidence
def write_evidence(prop_id, tier, seed, level, stats, rule, wall_s, violations, assumptions, extra_cov=None,
                   exhaustive=None, known_printed=()):
    cov = {
        'evaluations': int(stats.evaluations),
        'distinct_nontrivial': int(stats.distinct_nontrivial),
        'rule': rule,
        'samples': stats.samples[:8] if stats.samples else [],
        'classes': {k: int(v) for k, v in sorted(stats.classes.items())},
        'excluded_by_construction': {k: int(v) for k, v in sorted(stats.excluded.items())},
        'inconclusive': int(stats.inconclusive),
        'failure_signatures': {sig: cnt for sig, (cnt, _f) in sorted(stats.failures.items())},
        'known_findings_reproduced': list(known_printed),
    }
    if exhaustive is not None:
        cov['exhaustive'] = bool(exhaustive)
    for k, v in stats.extra.items():
        if isinstance(v, set):
            v = sorted(v, key=repr)
        cov[k] = v
    if extra_cov:
        cov.update(extra_cov)
    doc = {
        'property_id': prop_id,
        'tier': tier,
        'seed': int(seed),
        'level': level,
        'coverage': cov,
        'assumptions': list(assumptions),
        'wall_s': round(wall_s, 2),
        'violations': int(violations),
    }
    evdir = os.environ.get('SQV_EVIDENCE_DIR') or os.path.join(VERIF, 'evidence')
    os.makedirs(evdir, exist_ok=True)
    path = os.path.join(evdir, f'{prop_id}.json')
    tmp = path + '.tmp'
    with open(tmp, 'w', encoding='utf-8') as f:
        json.dump(json.loads(jdump(doc)), f, indent=1, ensure_ascii=True)
        f.write('\n')
    os.replace(tmp, path)
    return path


def write_replay(prop_id, failure, found_dir=None):
    found_dir = found_dir or os.path.join(os.environ.get('SQV_FOUND_DIR') or os.path.join(VERIF, 'replays', 'found'), prop_id)
    os.makedirs(found_dir, exist_ok=True)
    doc = {'property': prop_id, 'signature': failure.signature, 'message': failure.message[:2000], 'case': failure.case}
    text = jdump(doc)
    sha = hashlib.sha1(text.encode()).hexdigest()[:12]
    path = os.path.join(found_dir, f'{sha}.json')
    with open(path, 'w', encoding='utf-8') as f:
        f.write(json.dumps(json.loads(text), indent=1, ensure_ascii=True) + '\n')
    return path


def load_replay(path):
    with open(path, encoding='utf-8') as f:
        return json.load(f)
