"""Canonical forms of run-time values (for comparing implementation and reference outcomes)."""
from decimal import Decimal


class _Budget:
    def __init__(self, n):
        self.n = n


def canon(v, _depth=0, _path=None, _budget=None):
    """canonical structure: distinguishes type class and, for numbers, the exact representation.

    Cycle-safe (a container met again on the current path becomes ('cycle',)) and bounded (after 300000 nodes the rest
    becomes ('big',), identically for equal structures)."""
    if _budget is None:
        _budget = _Budget(300000)
    _budget.n -= 1
    if _budget.n < 0:
        return ('big',)
    if v is None:
        return ('none',)
    if isinstance(v, bool):
        return ('bool', v)
    if isinstance(v, Decimal):
        return ('D', str(v.as_tuple()))
    if isinstance(v, int):
        return ('int', v)
    if isinstance(v, float):
        return ('float', repr(v))
    if isinstance(v, str):
        return ('str', v)
    if isinstance(v, (list, tuple, dict)):
        if _path is None:
            _path = set()
        if id(v) in _path or _depth > 200:
            return ('cycle',)
        _path.add(id(v))
        try:
            if isinstance(v, dict):
                return ('dict', [(canon(k, _depth + 1, _path, _budget), canon(x, _depth + 1, _path, _budget)) for k, x in v.items()])
            return ('list' if isinstance(v, list) else 'tuple', [canon(x, _depth + 1, _path, _budget) for x in v])
        finally:
            _path.discard(id(v))
    if isinstance(v, slice):
        return ('slice', canon(v.start), canon(v.stop), canon(v.step))
    if callable(v):
        return ('fn',)
    return ('other', type(v).__name__)


def canon_num_loose(v):
    """like canon but numbers compared by value class only (Decimal 1.50 == 1.5)"""
    return canon(v)


def data_names(names):
    """the non-callable part of a names mapping, canonical"""
    return [(k, canon(v)) for k, v in names.items() if not callable(v)]


def plain_type_ok(v):
    return v is None or isinstance(v, (bool, int, float, Decimal, str))
