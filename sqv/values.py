"""Canonical forms of run-time values (for comparing implementation and reference outcomes)."""
from decimal import Decimal


def canon(v, _depth=0):
    """hashable-free canonical structure: distinguishes type class and, for numbers, the exact representation"""
    if _depth > 50:
        return ('deep',)
    if v is None:
        return ('none',)
    if isinstance(v, bool):
        return ('bool', v)
    if isinstance(v, Decimal):
        return ('D', str(v.as_tuple()))
    if isinstance(v, int):
        return ('int', v)
    if isinstance(v, float):
        return ('float', repr(v))
    if isinstance(v, str):
        return ('str', v)
    if isinstance(v, list):
        return ('list', [canon(x, _depth + 1) for x in v])
    if isinstance(v, tuple):
        return ('tuple', [canon(x, _depth + 1) for x in v])
    if isinstance(v, dict):
        return ('dict', [(canon(k, _depth + 1), canon(x, _depth + 1)) for k, x in v.items()])
    if isinstance(v, slice):
        return ('slice', canon(v.start), canon(v.stop), canon(v.step))
    if callable(v):
        return ('fn',)
    return ('other', type(v).__name__)


def canon_num_loose(v):
    """like canon but numbers compared by value class only (Decimal 1.50 == 1.5)"""
    return canon(v)


def data_names(names):
    """the non-callable part of a names mapping, canonical"""
    return [(k, canon(v)) for k, v in names.items() if not callable(v)]


def plain_type_ok(v):
    return v is None or isinstance(v, (bool, int, float, Decimal, str))
