"""A persistent child process that executes tasks under a CPU-time cap (DESIGN 4/C05).

`Child(fn)` forks a helper that loops: receive task -> `setitimer(ITIMER_PROF, cpu_limit)` with the default disposition
(the kernel kills the helper when the task has used that much CPU time, even inside a C extension that never returns to
the interpreter) -> run `fn(task)` -> send the result back.  A helper that died is attributed to the task in flight and
respawned.  Raw fork/pipes are used because shard workers are daemonic multiprocessing workers.
"""
import os
import pickle
import resource
import signal
import struct
import traceback


def _send(fd, obj):
    data = pickle.dumps(obj, protocol=pickle.HIGHEST_PROTOCOL)
    os.write(fd, struct.pack('<Q', len(data)))
    view = memoryview(data)
    while view:
        n = os.write(fd, view[:1 << 16])
        view = view[n:]


def _recv_exact(fd, n):
    buf = bytearray()
    while len(buf) < n:
        chunk = os.read(fd, min(n - len(buf), 1 << 20))
        if not chunk:
            raise EOFError
        buf += chunk
    return bytes(buf)


def _recv(fd):
    (n,) = struct.unpack('<Q', _recv_exact(fd, 8))
    return pickle.loads(_recv_exact(fd, n))


class Child:
    def __init__(self, fn, mem_bytes=3 << 30, cwd=None):
        self.fn = fn
        self.mem = mem_bytes
        self.cwd = cwd
        self.pid = None
        self.deaths = 0
        self._spawn()

    def _spawn(self):
        p2c_r, p2c_w = os.pipe()
        c2p_r, c2p_w = os.pipe()
        pid = os.fork()
        if pid == 0:
            try:
                os.close(p2c_w)
                os.close(c2p_r)
                signal.signal(signal.SIGPROF, signal.SIG_DFL)
                signal.signal(signal.SIGINT, signal.SIG_IGN)
                if self.mem:
                    try:
                        resource.setrlimit(resource.RLIMIT_AS, (self.mem, self.mem))
                    except (ValueError, OSError):
                        pass
                if self.cwd:
                    os.chdir(self.cwd)
                while True:
                    try:
                        msg = _recv(p2c_r)
                    except EOFError:
                        break
                    if msg is None:
                        break
                    task, cpu = msg
                    signal.setitimer(signal.ITIMER_PROF, cpu)
                    try:
                        res = ('ok', self.fn(task))
                    except BaseException as e:  # noqa
                        res = ('exc', f'{type(e).__name__}: {e}', traceback.format_exc()[-1500:])
                    signal.setitimer(signal.ITIMER_PROF, 0)
                    _send(c2p_w, res)
            finally:
                os._exit(0)
        os.close(p2c_r)
        os.close(c2p_w)
        self.pid, self.w, self.r = pid, p2c_w, c2p_r

    def call(self, task, cpu_limit=5.0):
        """-> ('ok', value) | ('exc', message, traceback) | ('died', signal or exit status)"""
        try:
            _send(self.w, (task, cpu_limit))
            return _recv(self.r)
        except (EOFError, BrokenPipeError, OSError):
            try:
                _, status = os.waitpid(self.pid, 0)
            except ChildProcessError:
                status = -1
            for fd in (self.w, self.r):
                try:
                    os.close(fd)
                except OSError:
                    pass
            self.deaths += 1
            self._spawn()
            sig = status & 0x7f if status >= 0 else -1
            return ('died', signal.Signals(sig).name if 0 < sig < 65 else f'status {status}')

    def close(self):
        try:
            _send(self.w, None)
        except Exception:  # noqa
            pass
        for fd in (self.w, self.r):
            try:
                os.close(fd)
            except OSError:
                pass
        try:
            os.waitpid(self.pid, 0)
        except ChildProcessError:
            pass
