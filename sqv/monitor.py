"""Run-time observation of the evaluator without touching the repository (DESIGN 2.6 / 3.5).

Wraps, for the duration of a `with mon.on():` block
  * `Op.eval`               - the charge: counts charges that returned / raised, optional pre-charge callback
  * every subclass `eval`   - node entry counter per kind, optional callbacks with the node's result / exception
  * every FUNCTIONS entry   - optional callbacks with arguments and result
and restores the originals afterwards.  If these seams disappear the harness reports a HarnessError (exit 2).
"""
import collections
import contextlib

from sqv.core import HarnessError


def all_subclasses(c):
    out = []
    for s in c.__subclasses__():
        out.append(s)
        out.extend(all_subclasses(s))
    return out


class Monitor:
    def __init__(self, wrap_builtins=False):
        self.entries = collections.Counter()
        self.charges_ok = 0
        self.charges_raised = 0
        self.wrap_builtins = wrap_builtins
        self.pre_charge = None      # fn(node, state)               before the charge of a node
        self.post_charge = None     # fn(node, state)               after a charge that returned
        self.post_node = None       # fn(node, state, result)       node evaluation returned
        self.node_exc = None        # fn(node, state, exc)          node evaluation raised
        self.pre_builtin = None     # fn(name, args)
        self.post_builtin = None    # fn(name, args, result)
        self.builtin_exc = None     # fn(name, args, exc)
        self.paused = 0             # > 0: evaluations are not observed (nested evals run by host callbacks)
        self.wrappers = {}          # name -> wrapper installed in FUNCTIONS
        self.originals = {}         # name -> original FUNCTIONS entry

    @property
    def total_entries(self):
        return sum(self.entries.values())

    def reset_counts(self):
        self.entries.clear()
        self.charges_ok = 0
        self.charges_raised = 0

    @contextlib.contextmanager
    def on(self):
        try:
            from smartquery import ast_ops as A
            from smartquery import functions as Fn
            from smartquery.exceptions import OpsExecutionLimitExceededError as OLE
        except Exception as e:  # noqa
            raise HarnessError(f'monitor: cannot import evaluator modules: {e}')
        if not hasattr(A, 'Op') or 'eval' not in A.Op.__dict__:
            raise HarnessError('monitor: Op.eval seam not found')
        classes = [c for c in all_subclasses(A.Op) if 'eval' in c.__dict__]
        if len(classes) < 5:
            raise HarnessError('monitor: node classes with their own eval not found')
        mon = self
        saved = []
        base = A.Op.__dict__['eval']

        def charge(self_, state, *a, **kw):
            if mon.paused:
                return base(self_, state, *a, **kw)
            if type(self_).eval is charge:
                mon.entries[type(self_).__name__] += 1      # node kinds without an eval of their own (NoOp)
            if mon.pre_charge is not None:
                mon.pre_charge(self_, state)
            try:
                r = base(self_, state, *a, **kw)
            except OLE:
                mon.charges_raised += 1
                raise
            mon.charges_ok += 1
            if mon.post_charge is not None:
                mon.post_charge(self_, state)
            return r

        A.Op.eval = charge
        saved.append((A.Op, base))
        for cls in classes:
            orig = cls.__dict__['eval']

            def mk(orig, name):
                def w(self_, state, *a, **kw):
                    if mon.paused:
                        return orig(self_, state, *a, **kw)
                    mon.entries[name] += 1
                    try:
                        r = orig(self_, state, *a, **kw)
                    except BaseException as e:  # noqa
                        if mon.node_exc is not None:
                            mon.node_exc(self_, state, e)
                        raise
                    if mon.post_node is not None:
                        mon.post_node(self_, state, r)
                    return r
                return w
            cls.eval = mk(orig, cls.__name__)
            saved.append((cls, orig))
        # classes that inherit Op.eval (NoOp) are counted through the charge only: count their entries there
        fsaved = None
        if self.wrap_builtins:
            fsaved = dict(Fn.FUNCTIONS)
            for name, fn in fsaved.items():
                def mkf(fn, name):
                    def wf(*args):
                        if mon.pre_builtin is not None:
                            mon.pre_builtin(name, args)
                        try:
                            r = fn(*args)
                        except BaseException as e:  # noqa
                            if mon.builtin_exc is not None:
                                mon.builtin_exc(name, args, e)
                            raise
                        if mon.post_builtin is not None:
                            mon.post_builtin(name, args, r)
                        return r
                    wf._sqv_builtin = name
                    return wf
                w = mkf(fn, name)
                self.wrappers[name] = w
                self.originals[name] = fn
                Fn.FUNCTIONS[name] = w
        try:
            yield self
        finally:
            for cls, orig in saved:
                cls.eval = orig
            if fsaved is not None:
                for name in list(Fn.FUNCTIONS):
                    if name not in fsaved:
                        del Fn.FUNCTIONS[name]
                Fn.FUNCTIONS.update(fsaved)
