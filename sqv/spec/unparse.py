"""Neutral trees (with generator marks) -> source text.

Marks (extra trailing element of a node) say which surface form a node is to be printed in:
  ('Call', name, args, mark)    mark: None|'call' f(a)   'dot' r.f(a)   'pipe' r | f(a)   'lit' [..] / {}
                                      'idx' r[i]   'slice:<form>' r[a:b]   'stmt' (index assignment / del statements)
                                      a trailing ',' in the mark (e.g. 'dot,') prints a trailing comma
  ('Dict', items, ',')          trailing comma
  ('Lambda', params, body, 'bare'|'paren')

Two renderings:
  minimal(tree)  parenthesises a sub-expression only where the frozen operator table requires it (DESIGN 3.4)
  full(tree)     parenthesises every compound sub-expression (so grouping defects cannot leak into semantic checks)
"""
from decimal import Decimal

BINL = {'or': 3, 'and': 4, '==': 5, '!=': 5, '<': 5, '>': 5, '<=': 5, '>=': 5, 'in': 5, 'not in': 5,
        '+': 6, '-': 6, '*': 7, '/': 7, '**': 8}
PRIMARY = 14


def lit(v):
    if v is None:
        return 'None'
    if v is True:
        return 'True'
    if v is False:
        return 'False'
    if isinstance(v, str):
        return string_literal(v)
    if isinstance(v, Decimal):
        return decimal_literal(v)
    return str(v)


def decimal_literal(v):
    """non-negative finite Decimal -> NUMBER lexeme denoting exactly the same Decimal (same exponent)"""
    s = format(v, 'f')
    if s.startswith('-') or not v.is_finite():
        raise ValueError(f'not a literal: {v!r}')
    if Decimal(s).as_tuple() != v.as_tuple():
        raise ValueError(f'no exact NUMBER literal for {v!r}')
    return s


def string_literal(v):
    """string value -> STRING lexeme; only for values expressible in the language's escapes"""
    if '\\' in v:
        # raw literal: no escape processing, value is the text between the quotes
        if '\n' in v or '\r' in v or v.endswith('\\') or ('"' in v and "'" in v):
            raise ValueError('string not expressible')
        q = '"' if '"' not in v else "'"
        return 'r' + q + v + q
    if '\r' in v:
        raise ValueError('string not expressible')
    body = v.replace('\n', '\\n').replace('\t', '\\t')
    if '"' not in body:
        return '"' + body + '"'
    if "'" not in body:
        return "'" + body + "'"
    return '"' + body.replace('"', '\\"') + '"'


def mark_of(e):
    if e[0] == 'Call':
        return e[3] if len(e) > 3 else None
    return None


def level(e):
    k = e[0]
    if k in ('Name', 'Val', 'Dict'):
        return PRIMARY
    if k == 'Call':
        mark = (mark_of(e) or '').rstrip(',')
        if mark == 'dot':
            return 10
        if mark == 'pipe':
            return 9
        if mark == 'idx' or mark.startswith('slice'):
            return 13
        return PRIMARY
    if k == 'Bin':
        return BINL[e[1]]
    if k == 'Un':
        return 12 if e[1] == '-' else 11
    if k == 'If':
        return 0
    if k == 'Lambda':
        return PRIMARY      # a prefix construct may start anywhere; only its greedy body matters
    if k == 'Paren':
        return PRIMARY      # redundant parentheses (C15): ('Paren', e, n)
    raise ValueError(k)


class Minimal:
    def U(self, e, minl, rightmost):
        """text of e for a slot accepting level >= minl; rightmost: nothing can follow e in the enclosing context"""
        text, greedy = self.R(e, rightmost)
        if level(e) < minl or (greedy and not rightmost):
            return '(' + self.R(e, True)[0] + ')'
        return text

    def args(self, xs, comma=False):
        s = ', '.join(self.U(a, 0, True) for a in xs)
        return s + (',' if comma and xs else '')

    def R(self, e, rightmost):
        """(text, greedy): greedy = the text ends in an unparenthesised lambda body / else-branch"""
        k = e[0]
        U = self.U
        if k == 'Name':
            return e[1], False
        if k == 'Val':
            return lit(e[1]), False
        if k == 'Paren':
            return '(' * e[2] + self.U(e[1], 0, True) + ')' * e[2], False
        if k == 'Dict':
            tc = len(e) > 2 and e[2] == ','
            return '{' + ', '.join(U(a, 0, True) + ': ' + U(b, 0, True) for a, b in e[1]) + (',' if tc else '') + '}', False
        if k == 'Call':
            m = mark_of(e) or ''
            tc = m.endswith(',')
            mark = m.rstrip(',')
            if mark == 'lit':
                return ('[' + self.args(e[2], tc) + ']' if e[1] == 'list' else '{}'), False
            if mark == 'dot':
                return U(e[2][0], 10, False) + '.' + e[1] + '(' + self.args(e[2][1:], tc) + ')', False
            if mark == 'pipe':
                rest = e[2][1:]
                return U(e[2][0], 9, False) + ' | ' + e[1] + ('(' + self.args(rest, tc) + ')' if rest else ''), False
            if mark == 'idx':
                return U(e[2][0], 13, False) + '[' + U(e[2][1], 0, True) + ']', False
            if mark.startswith('slice'):
                form = mark[6:]
                a, b, c = e[2][1][1]
                inner = {
                    'a:b': lambda: U(a, 0, True) + ':' + U(b, 0, True),
                    'a:': lambda: U(a, 0, True) + ':',
                    ':b': lambda: ':' + U(b, 0, True),
                    '::c': lambda: '::' + U(c, 0, True),
                    ':': lambda: ':',
                    'a::': lambda: U(a, 0, True) + '::',
                    ':b:': lambda: ':' + U(b, 0, True) + ':',
                }[form]()
                return U(e[2][0], 13, False) + '[' + inner + ']', False
            return e[1] + '(' + self.args(e[2], tc) + ')', False
        if k == 'Bin':
            op, lv = e[1], BINL[e[1]]
            if lv == 8:
                lmin, rmin = 9, 8
            elif lv == 5:
                lmin, rmin = 6, 6
            else:
                lmin, rmin = lv, lv + 1
            rs = U(e[3], rmin, rightmost)
            greedy = (not rs.startswith('(') and self.R(e[3], rightmost)[1]) if level(e[3]) >= rmin else False
            return U(e[2], lmin, False) + ' ' + op + ' ' + rs, greedy
        if k == 'Un':
            minl = 12 if e[1] == '-' else 11
            rs = U(e[2], minl, rightmost)
            greedy = self.R(e[2], rightmost)[1] if (level(e[2]) >= minl and not rs.startswith('(')) else False
            return ('-' if e[1] == '-' else 'not ') + rs, greedy
        if k == 'If':
            return U(e[2], 1, False) + ' if ' + U(e[1], 0, True) + ' else ' + U(e[3], 0, rightmost), True
        if k == 'Lambda':
            ps = e[1]
            style = e[3] if len(e) > 3 else 'paren'
            if len(ps) == 1 and style == 'bare' and ps[0][0] == 'Name':
                head = ps[0][1]
            else:
                head = '(' + ', '.join(U(q, 0, True) for q in ps) + ')'
            return head + ' => ' + U(e[2], 0, rightmost), True
        raise ValueError(k)

    def stmt(self, s):
        U = self.U
        k = s[0]
        if k == 'Assign':
            return s[1] + ' = ' + U(s[2], 0, True)
        if k == 'Short':
            return s[1] + ' ' + s[2] + ' ' + U(s[3], 0, True)
        if k == 'Call' and len(s) > 3 and s[3] == 'stmt':
            if s[1] == '__setitem__':
                return U(s[2][0], 13, False) + '[' + U(s[2][1], 0, True) + '] = ' + U(s[2][2], 0, True)
            if s[1] == '__setitem_with_op__':
                return (U(s[2][0], 13, False) + '[' + U(s[2][1], 0, True) + '] ' + s[2][2][1] + ' '
                        + U(s[2][3], 0, True))
            return 'del ' + U(s[2][0], 13, False) + '[' + U(s[2][1], 0, True) + ']'
        return U(s, 0, True)


class Full(Minimal):
    """every compound sub-expression is parenthesised (atoms, plain calls and literals are not)"""

    def U(self, e, minl, rightmost):
        text, _ = self.R(e, True)
        if e[0] in ('Name', 'Val', 'Dict', 'Paren'):
            return text
        if e[0] == 'Call' and (mark_of(e) or '').rstrip(',') in ('', 'call', 'lit'):
            return text
        if minl == 0 and rightmost and e[0] not in ('If', 'Lambda'):
            # delimited position: brackets/commas already isolate it
            return text
        return '(' + text + ')'


_MIN = Minimal()
_FULL = Full()


def minimal_stmt(s):
    return _MIN.stmt(s)


def full_stmt(s):
    return _FULL.stmt(s)


def minimal_expr(e):
    return _MIN.U(e, 0, True)


def full_expr(e):
    return _FULL.U(e, 0, True)


def clean(e):
    """drop generator marks -> the plain neutral tree refparse / neutral() produce"""
    if isinstance(e, tuple):
        if e[0] == 'Paren':
            return clean(e[1])
        if e[0] == 'Call':
            return ('Call', e[1], [clean(a) for a in e[2]])
        if e[0] == 'Dict':
            return ('Dict', [(clean(a), clean(b)) for a, b in e[1]])
        if e[0] == 'Slice':
            return ('Slice', [clean(a) for a in e[1]])
        if e[0] == 'Lambda':
            return ('Lambda', [clean(a) for a in e[1]], clean(e[2]))
        if e[0] == 'Code':
            return ('Code', [clean(a) for a in e[1]])
        return tuple(clean(x) for x in e)
    return e
