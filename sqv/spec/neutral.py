"""Implementation tree (dataclasses of smartquery.ast_ops) -> neutral tuples; unknown node kinds are harness errors."""
from sqv.core import HarnessError


def neutral(op):
    if op is None:
        return None
    t = type(op).__name__
    try:
        if t == 'CodeOp':
            return ('Code', [neutral(x) for x in op.lines])
        if t == 'ValueOp':
            return ('Val', op.v)
        if t == 'NameOp':
            return ('Name', op.name)
        if t == 'BinOp':
            return ('Bin', op.op, neutral(op.op1), neutral(op.op2))
        if t == 'UnaryOp':
            return ('Un', op.op, neutral(op.op1))
        if t == 'AssignOp':
            return ('Assign', op.name, neutral(op.value))
        if t == 'ShortOp':
            return ('Short', op.name, op.op, neutral(op.value))
        if t == 'IfExprOp':
            return ('If', neutral(op.cond), neutral(op.op1), neutral(op.op2))
        if t == 'SliceOp':
            return ('Slice', [neutral(op.start), neutral(op.stop), neutral(op.step)])
        if t == 'CallOp':
            return ('Call', op.name, [neutral(x) for x in op.args])
        if t == 'DictOp':
            return ('Dict', [(neutral(k), neutral(v)) for k, v in op.d])
        if t == 'LambdaOp':
            return ('Lambda', [neutral(x) for x in op.args], neutral(op.expr))
        if t == 'NoOp':
            return ('NoOp',)
    except AttributeError as e:
        raise HarnessError(f'neutral: node {t} lacks an expected field: {e}')
    # anything that is not a tree node (a stray str/list in a child slot) is reported as an opaque leaf,
    # so that it compares unequal to every reference tree instead of crashing the harness
    if not hasattr(op, 'eval'):
        return ('Opaque', repr(op)[:80])
    raise HarnessError(f'neutral: unknown node class {t}')


def same_tree(a, b):
    """structural equality that distinguishes Decimal('1') from True and 1.0 from 1.00"""
    from decimal import Decimal
    if isinstance(a, Decimal) or isinstance(b, Decimal):
        return isinstance(a, Decimal) and isinstance(b, Decimal) and a.as_tuple() == b.as_tuple()
    if isinstance(a, (tuple, list)):
        return isinstance(b, (tuple, list)) and len(a) == len(b) and all(same_tree(x, y) for x, y in zip(a, b))
    return type(a) is type(b) and a == b
