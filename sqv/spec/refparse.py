"""Reference parser: precedence climbing over a frozen copy of the grammar and operator table (DESIGN 3.2)."""
class Rej(Exception):
    pass

CMP = {'EQ': '==', 'NE': '!=', 'GT': '>', 'LT': '<', 'GTE': '>=', 'LTE': '<=', 'IN': 'in'}
BIN = {'OR': (3, 'left', 'or'), 'AND': (4, 'left', 'and'),
       'PLUS': (6, 'left', '+'), 'MINUS': (6, 'left', '-'),
       'TIMES': (7, 'left', '*'), 'DIVIDE': (7, 'left', '/'),
       'POWER': (8, 'right', '**')}
for k, v in CMP.items():
    BIN[k] = (5, 'nonassoc', v)
RESERVED_UNUSED = {'FOR', 'WHILE', 'ELIF', 'BREAK', 'CONTINUE', 'DEF', 'RAISE'}


class P:
    def __init__(self, toks, single_param_lambda=True, dict_trailing=True):
        self.t = toks  # list of (kind, value)
        self.i = 0
        self.single_param_lambda = single_param_lambda
        self.dict_trailing = dict_trailing

    def peek(self, k=0):
        j = self.i + k
        return self.t[j][0] if j < len(self.t) else None

    def next(self):
        tok = self.t[self.i]
        self.i += 1
        return tok

    def expect(self, kind):
        if self.peek() != kind:
            raise Rej(self.i)
        return self.next()

    # ---- statements
    def code(self):
        lines = []
        while True:
            st = self.statement()
            if st is not None:
                lines.append(st)
            if self.peek() is None:
                break
            self.expect('NEWLINE')
        return ('Code', lines)

    def statement(self):
        k = self.peek()
        if k is None or k == 'NEWLINE':
            return None
        if k == 'NAME' and self.peek(1) == 'ASSIGN':
            name = self.next()[1]; self.next()
            return ('Assign', name, strip(self.expr(0)))
        if k == 'NAME' and self.peek(1) == 'SHORT_OP':
            name = self.next()[1]; op = self.next()[1]
            return ('Short', name, op, strip(self.expr(0)))
        if k == 'DEL':
            self.next()
            e = self.expr(0)
            if not (e[0] == 'Call' and e[1] == '__getitem__' and e[-1] == 'idx'):
                raise Rej(self.i)
            return ('Call', '__delitem__', [e[2][0], e[2][1]])
        e = self.expr(0)
        if self.peek() in ('ASSIGN', 'SHORT_OP'):
            if not (e[0] == 'Call' and e[1] == '__getitem__' and e[-1] == 'idx'):
                raise Rej(self.i)
            op = self.next()
            rhs = strip(self.expr(0))
            if op[0] == 'ASSIGN':
                return ('Call', '__setitem__', [e[2][0], e[2][1], rhs])
            return ('Call', '__setitem_with_op__', [e[2][0], e[2][1], ('Val', op[1]), rhs])
        return strip(e)

    # ---- expressions
    def expr(self, minl):
        left = self.prefix()
        while True:
            k = self.peek()
            if k == 'NOT' and self.peek(1) == 'IN':
                lvl, assoc, op = 5, 'nonassoc', 'not in'
                width = 2
            elif k in BIN:
                lvl, assoc, op = BIN[k]
                width = 1
            elif k == 'LBRACKET':
                left = self.index(left)
                continue
            elif k in ('DOT', 'PIPE'):
                lvl = 10 if k == 'DOT' else 9
                if lvl < minl:
                    break
                left = self.method(left)
                continue
            elif k == 'IF':
                if minl > 0:
                    break
                self.next()
                cond = self.expr(0)
                self.expect('ELSE')
                other = self.expr(0)
                left = ('If', strip(cond), strip(left), strip(other))
                continue
            else:
                break
            if lvl < minl:
                break
            for _ in range(width):
                self.next()
            right = self.expr(lvl if assoc == 'right' else lvl + 1)
            left = ('Bin', op, strip(left), strip(right))
            if assoc == 'nonassoc':
                k2 = self.peek()
                if (k2 in BIN and BIN[k2][0] == 5) or (k2 == 'NOT' and self.peek(1) == 'IN'):
                    raise Rej(self.i)
        return left

    def args_until(self, close, allow_empty=True, trailing=True):
        args = []
        if self.peek() == close:
            if not allow_empty:
                raise Rej(self.i)
            self.next()
            return args
        while True:
            args.append(strip(self.expr(0)))
            if self.peek() == 'COMMA':
                self.next()
                if self.peek() == close:
                    if not trailing:
                        raise Rej(self.i)
                    self.next()
                    return args
                continue
            self.expect(close)
            return args

    def prefix(self):
        k = self.peek()
        if k is None:
            raise Rej(self.i)
        if k in RESERVED_UNUSED:
            raise Rej(self.i)
        if k == 'NUMBER' or k == 'STRING':
            return ('Val', self.next()[1])
        if k == 'TRUE':
            self.next(); return ('Val', True)
        if k == 'FALSE':
            self.next(); return ('Val', False)
        if k == 'NONE':
            self.next(); return ('Val', None)
        if k == 'MINUS':
            self.next()
            return ('Un', '-', strip(self.expr(12)))
        if k == 'NOT':
            self.next()
            return ('Un', 'not', strip(self.expr(11)))
        if k == 'NAME':
            name = self.next()[1]
            if self.peek() == 'LPAREN':
                self.next()
                return ('Call', name, self.args_until('RPAREN'))
            if self.peek() == 'LAMBDA':
                self.next()
                return ('Lambda', [('Name', name)], strip(self.expr(0)))
            return ('Name', name)
        if k == 'LBRACKET':
            self.next()
            return ('Call', 'list', self.args_until('RBRACKET'))
        if k == 'LBRACE':
            self.next()
            if self.peek() == 'RBRACE':
                self.next()
                return ('Call', 'dict', [])
            items = []
            while True:
                key = strip(self.expr(0))
                self.expect('COLON')
                val = strip(self.expr(0))
                items.append((key, val))
                if self.peek() == 'COMMA':
                    self.next()
                    if self.peek() == 'RBRACE':
                        if not self.dict_trailing and len(items) > 1:
                            raise Rej(self.i)
                        self.next()
                        return ('Dict', items)
                    continue
                self.expect('RBRACE')
                return ('Dict', items)
        if k == 'LPAREN':
            self.next()
            items = [self.expr(0)]
            raw_last_is_name = None
            while self.peek() == 'COMMA':
                self.next()
                items.append(self.expr(0))
            self.expect('RPAREN')
            if self.peek() == 'LAMBDA':
                last = items[-1]
                if last[0] != 'Name' or (len(last) > 2 and last[-1] == 'paren'):
                    raise Rej(self.i)
                if len(items) == 1 and not self.single_param_lambda:
                    raise Rej(self.i)
                self.next()
                body = strip(self.expr(0))
                return ('Lambda', [strip(x) for x in items], body)
            if len(items) != 1:
                raise Rej(self.i)
            e = strip(items[0])
            return e + ('paren',) if e[0] in ('Name',) or (e[0] == 'Call' and e[1] == '__getitem__') else e
        raise Rej(self.i)

    def index(self, obj):
        self.expect('LBRACKET')
        obj = strip(obj)
        NONE = ('Val', None)
        if self.peek() == 'COLON':
            self.next()
            if self.peek() == 'RBRACKET':
                self.next(); sl = [NONE, NONE, NONE]           # [:]
            elif self.peek() == 'COLON':
                self.next(); e = strip(self.expr(0)); self.expect('RBRACKET'); sl = [NONE, NONE, e]  # [::e]
            else:
                e = strip(self.expr(0))
                if self.peek() == 'COLON':
                    self.next()                                  # [:e:]
                self.expect('RBRACKET'); sl = [NONE, e, NONE]
            return ('Call', '__getitem__', [obj, ('Slice', sl)], 'slice')
        e = strip(self.expr(0))
        if self.peek() == 'RBRACKET':
            self.next()
            return ('Call', '__getitem__', [obj, e], 'idx')
        self.expect('COLON')
        if self.peek() == 'RBRACKET':
            self.next(); sl = [e, NONE, NONE]                  # [e:]
        elif self.peek() == 'COLON':
            self.next(); self.expect('RBRACKET'); sl = [e, NONE, NONE]   # [e::]
        else:
            e2 = strip(self.expr(0)); self.expect('RBRACKET'); sl = [e, e2, NONE]  # [e:e2]
        return ('Call', '__getitem__', [obj, ('Slice', sl)], 'slice')

    def method(self, obj):
        k = self.next()[0]
        obj = strip(obj)
        name = self.expect('NAME')[1]
        if k == 'DOT':
            self.expect('LPAREN')
            return ('Call', name, [obj] + self.args_until('RPAREN'))
        if self.peek() == 'LPAREN':
            self.next()
            return ('Call', name, [obj] + self.args_until('RPAREN', allow_empty=False))
        return ('Call', name, [obj])


def strip(e):
    # drop the 'idx'/'slice'/'paren' markers
    if e[0] == 'Call' and len(e) == 4:
        return e[:3]
    if e[0] == 'Name' and len(e) == 3:
        return e[:2]
    if e[-1] == 'paren':
        return strip(e[:-1])
    return e


def parse(toks, **kw):
    p = P(toks, **kw)
    r = p.code()
    return r


def parse_text(src):
    """the tree the published grammar derives from a source text (frozen reference lexer + parser); raises Rej / LexError"""
    from sqv.spec import reflex
    return parse([(t.kind, t.value) for t in reflex.lex(src)])
