"""Reference interpreter over neutral trees (DESIGN 3.3): dynamic scoping, value-copy assignment, key/index casts.

Outcome classes: value | LangErr (implementation must raise ParserError) | OtherErr (some non-ParserError Exception)
| AnyErr (some Exception) | Unspec (outside the reference's stated domain: case discarded and counted).
"""
import copy, functools, math, re
import decimal
from decimal import Decimal as D

MAX_ARRAY = 10000


class LangErr(Exception):
    """language-level failure: the implementation must raise ParserError"""


class OtherErr(Exception):
    """python-level failure: the implementation must raise a non-ParserError Exception"""


class AnyErr(Exception):
    """some ordinary Exception (class not prescribed)"""


class Unspec(BaseException):
    """outside the reference's domain: discard the case"""


NUM = (D, int, float)  # bool is an int
SCALAR = (D, int, float, str, type(None))


def is_num(v):
    return isinstance(v, NUM)


def rstr(v):
    if isinstance(v, SCALAR):
        return str(v)
    raise Unspec('str of non-scalar')


def guard(fn):
    """map python-level exceptions raised by reference primitives to OtherErr"""
    @functools.wraps(fn)
    def w(*a):
        try:
            return fn(*a)
        except (LangErr, OtherErr, AnyErr, Unspec):
            raise
        except (decimal.DecimalException, ArithmeticError, TypeError, ValueError, AttributeError, LookupError, RecursionError) as e:
            raise OtherErr(f'{type(e).__name__}: {e}')
    return w


def list_key(k):
    return int(k) if isinstance(k, D) else k


def key_cast(c, k):
    return str(k) if isinstance(c, dict) else list_key(k)


def check_size(c):
    if len(c) >= MAX_ARRAY:
        raise LangErr('size')


def multiply(a, b):
    if not is_num(a) or not is_num(b):
        raise LangErr('multiply non-numbers')
    return D(a) * D(b)


def check_concat(a, b):
    if isinstance(a, list) and hasattr(b, '__len__') and len(a) + len(b) > MAX_ARRAY:
        raise LangErr('size')


def apply_short(cur, op, v):
    if op == '+=':
        check_concat(cur, v)
        if isinstance(cur, str) and not isinstance(v, str):
            raise OtherErr('str += non-str')
        cur += v
    elif op == '-=':
        cur -= v
    elif op == '*=':
        if not is_num(cur) or not is_num(v):
            raise AnyErr('*= on non-numbers')
        cur = D(cur) * D(v)
    elif op == '/=':
        cur /= v
    else:
        raise LangErr('op')
    return cur


# ---------------------------------------------------------------- builtins
def b_int(v):
    if isinstance(v, str):
        if not re.fullmatch(r'[+-]?[0-9]+', v):
            raise OtherErr('int literal')
        return D(int(v))
    if is_num(v):
        return D(int(v))
    raise OtherErr('int')


def b_float(v):
    if isinstance(v, str) or is_num(v):
        return D(float(v))
    raise OtherErr('float')


def b_dict(*a):
    if not a:
        return {}
    if len(a) == 1 and isinstance(a[0], dict):
        return dict(a[0])
    if len(a) == 1 and isinstance(a[0], list) and all(isinstance(p, (list, tuple)) and len(p) == 2 and isinstance(p[0], (str, D, int, bool)) for p in a[0]):
        return dict(a[0])
    raise Unspec('dict args')


def b_pretty(v, *sep):
    if len(sep) > 1 or (sep and not isinstance(sep[0], str)):
        raise Unspec('pretty sep')
    if isinstance(v, dict):
        s = sep[0] if sep else '\n'
        return s.join(f'{k}: {rstr(x)}' for k, x in v.items())
    if isinstance(v, list):
        s = sep[0] if sep else ', '
        return s.join(rstr(x) for x in v)
    if isinstance(v, D):
        if v != v.to_integral_value() or v.as_tuple().exponent != 0:
            raise Unspec('pretty non-integer')
        s = sep[0] if sep else ' '
        digits = str(v.copy_abs())          # copy_abs: abs() would round a > 28-digit integer to the context precision
        if len(digits) < 5:
            return str(v)
        groups = []
        while digits:
            groups.insert(0, digits[-3:])
            digits = digits[:-3]
        return ('-' if v < 0 else '') + s.join(groups)
    return rstr(v)


def b_get(c, k, *d):
    if not isinstance(c, dict):
        raise OtherErr('get on non-dict')
    return c.get(str(k), d[0] if d else None)


def b_getitem(c, k):
    if isinstance(c, dict):
        k = str(k)
        if k not in c:
            raise LangErr('key')
        return c[k]
    k = list_key(k)
    try:
        return c[k]
    except IndexError:
        raise LangErr('index')


def b_delitem(c, k):
    if isinstance(c, dict):
        c.pop(str(k), None)
        return None
    k = list_key(k)
    if not isinstance(k, int):
        raise AnyErr('del key type')
    if k >= len(c) or k < -len(c):
        raise Unspec('del of an out-of-range position (a no-op today; the semantics do not pin it down)')
    del c[k]


def b_setitem(c, k, v):
    check_size(c)
    k = key_cast(c, k)
    if isinstance(c, list):
        if not isinstance(k, int) or not (-len(c) <= k < len(c)):
            raise AnyErr('set index')
    c[k] = copy.deepcopy(v)
    return v


def b_setitem_op(c, k, op, v):
    check_size(c)
    k = key_cast(c, k)
    v = copy.deepcopy(v)
    if isinstance(c, dict):
        if k not in c:
            raise AnyErr('compound on missing key')
    elif not isinstance(k, int) or not (-len(c) <= k < len(c)):
        raise AnyErr('compound index')
    try:
        c[k] = apply_short(c[k], op, v)
    except (TypeError, decimal.DecimalException, ZeroDivisionError) as e:
        raise OtherErr(str(e))
    return v


def b_map(c, f):
    if isinstance(c, (list, str)):
        return [f(v) for v in c]
    if isinstance(c, dict):
        return [f(k, v) for k, v in c.items()]
    raise LangErr('map')


def b_filter(c, f):
    if isinstance(c, list):
        return [v for v in c if f(v)]
    raise LangErr('filter')


def b_reduce(c, f):
    if isinstance(c, (list, str, dict, tuple)):
        it = list(c)
        if not it:
            raise OtherErr('reduce of empty')
        acc = it[0]
        for v in it[1:]:
            acc = f(acc, v)
        return acc
    raise LangErr('reduce')


def b_join(c, *sep):
    s = sep[0] if sep else '\n'
    return s.join(rstr(x) for x in c)


def b_split(s, *a):
    sep = a[0] if a else ' '
    mx = int(a[1]) if len(a) > 1 else -1
    return s.split(sep, mx)


def b_replace(s, old, new, *cnt):
    return s.replace(old, new, int(cnt[0]) if cnt else -1)


def b_round(v, *nd):
    n = nd[0] if nd else None
    return D(str(round(v, int(n) if n is not None else None)))


def b_push(l, v):
    check_size(l)
    l.append(v)


def b_pop(l, *i):
    if not l:
        raise LangErr('pop on empty list')
    try:
        return l.pop(int(i[0])) if i and i[0] is not None else l.pop()
    except IndexError:
        raise AnyErr('pop index out of range')


def b_insert(l, i, v):
    check_size(l)
    l.insert(int(i), v)


def b_remove(c, v):
    if isinstance(c, list):
        if v not in c:
            raise Unspec('remove of an absent value (a no-op today)')
        c.remove(v)
    else:
        if not isinstance(v, str):
            raise Unspec('remove non-string key from dict')
        c.pop(v, None)


def b_sorted(c, *a):
    key = a[0] if a else None
    rev = a[1] if len(a) > 1 else False
    if isinstance(c, dict):
        if callable(key):
            return dict(sorted(c.items(), key=lambda p: key(p[0], p[1]), reverse=rev))
        if key is not None:
            raise Unspec('sorted key')
        return dict(sorted(c.items(), reverse=rev))
    if key is not None and not callable(key):
        raise Unspec('sorted key')
    return sorted(c, key=key, reverse=rev)


def b_reversed(c):
    return c[::-1] if isinstance(c, str) else list(reversed(c))


def b_index_of(c, v):
    try:
        return c.index(v)
    except ValueError:
        return None


def b_sum(v):
    return sum(v) if isinstance(v, list) else v


def _re_flags(f):
    fl = 0
    for ch, val in (('i', re.I), ('m', re.M), ('s', re.S)):
        if f and ch in f.lower():
            fl |= val
    return fl


def b_match(s, pat, *f):
    m = re.search(pat, s, _re_flags(f[0] if f else None))
    return None if m is None else m.group(0)


def b_match_groups(s, pat, *f):
    m = re.search(pat, s, _re_flags(f[0] if f else None))
    return None if m is None else [m.group(0), *m.groups()]


def b_match_all(s, pat, *f):
    return re.findall(pat, s, _re_flags(f[0] if f else None))


BUILTINS = {
    'len': len, 'int': b_int, 'float': b_float, 'str': rstr, 'dict': b_dict, 'list': lambda *a: [*a],
    'startswith': lambda s, p: s.startswith(p), 'endswith': lambda s, p: s.endswith(p),
    'lower': lambda s: s.lower(), 'upper': lambda s: s.upper(), 'strip': lambda s, *c: s.strip(*c), 'replace': b_replace,
    'match': b_match, 'match_groups': b_match_groups, 'match_all': b_match_all,
    'pretty': b_pretty, 'keys': lambda d: list(d.keys()), 'values': lambda d: list(d.values()), 'items': lambda d: list(d.items()),
    'sum': b_sum, 'get': b_get, '__getitem__': b_getitem, '__delitem__': b_delitem, '__setitem__': b_setitem,
    '__setitem_with_op__': b_setitem_op, 'map': b_map, 'filter': b_filter, 'reduce': b_reduce, 'join': b_join, 'split': b_split,
    'round': b_round, 'floor': lambda v: D(str(math.floor(v))), 'ceil': lambda v: D(str(math.ceil(v))), 'abs': lambda v: D(abs(v)),
    'min': min, 'max': max, 'push': b_push, 'pop': b_pop, 'insert': b_insert, 'remove': b_remove,
    'sorted': b_sorted, 'reversed': b_reversed, 'enumerate': lambda c: list(enumerate(c)), 'index_of': b_index_of,
}
BUILTINS = {k: guard(v) for k, v in BUILTINS.items()}
STR_ONLY = {'startswith', 'endswith', 'lower', 'upper', 'strip', 'replace', 'split'}


_CURRENT = []      # interpreters whose run() is in progress (innermost last)


class Interp:
    def __init__(self, names, max_ops=None):
        self.scopes = [dict(BUILTINS), names]
        self.ops = 0
        self.max_ops = max_ops

    def lookup(self, name):
        for sc in reversed(self.scopes):
            if name in sc:
                return sc[name]
        raise KeyError(name)

    def run(self, tree, ast_names=None):
        _CURRENT.append(self)
        try:
            if ast_names:
                for k, v in ast_names.items():
                    self.scopes[-1][k] = self.ev(v)
            return self.ev(tree)
        finally:
            _CURRENT.pop()

    def ev(self, n):
        self.ops += 1
        if self.max_ops is not None and self.ops >= self.max_ops:
            raise LangErr('ops limit')
        return getattr(self, 'ev_' + n[0])(n)

    def ev_Code(self, n):
        r = None
        for line in n[1]:
            r = self.ev(line)
        return r

    def ev_NoOp(self, n):
        return None

    def ev_Val(self, n):
        v = n[1]
        return D(v) if isinstance(v, D) else v

    def ev_Name(self, n):
        try:
            return self.lookup(n[1])
        except KeyError:
            raise LangErr('undefined variable ' + n[1])

    def ev_Bin(self, n):
        op = n[1]
        a = self.ev(n[2])
        if op == 'and':
            return a and self.ev(n[3])
        if op == 'or':
            return a or self.ev(n[3])
        b = self.ev(n[3])
        if op == '*':
            return guard(multiply)(a, b)
        return guard(self._bin)(op, a, b)

    @staticmethod
    def _bin(op, a, b):
        if op == '+':
            if isinstance(a, str) and not isinstance(b, str):
                b = rstr(b)
            check_concat(a, b)
            return a + b
        if op == '-':
            return a - b
        if op == '**':
            return D(a) ** D(b)
        if op == '/':
            return a / b
        if op == '==':
            return a == b
        if op == '!=':
            return a != b
        if op == '>':
            return a > b
        if op == '<':
            return a < b
        if op == '>=':
            return a >= b
        if op == '<=':
            return a <= b
        if op == 'in':
            return a in b
        if op == 'not in':
            return a not in b
        raise LangErr('binop')

    def ev_Un(self, n):
        a = self.ev(n[2])
        if n[1] == '-':
            return guard(lambda x: -x)(a)
        return not a

    def ev_Assign(self, n):
        v = self.ev(n[2])
        self.scopes[-1][n[1]] = guard(copy.deepcopy)(v)       # a value that cannot be copied is a Python-level failure
        return None

    def ev_Short(self, n):
        v = guard(copy.deepcopy)(self.ev(n[3]))
        try:
            cur = self.lookup(n[1])
        except KeyError:
            raise LangErr('undefined variable ' + n[1])
        if len(self.scopes) > 2 and n[1] not in self.scopes[-1]:
            # inside a lambda call: an assignment never alters the outer binding, so work on a copy of its value
            cur = copy.copy(cur)
        self.scopes[-1][n[1]] = guard(apply_short)(cur, n[2], v)
        return None

    def ev_If(self, n):
        return self.ev(n[2]) if self.ev(n[1]) else self.ev(n[3])

    def ev_Slice(self, n):
        parts = [self.ev(x) for x in n[1]]
        return slice(*[None if p is None else guard(int)(p) for p in parts])

    def ev_Call(self, n):
        args = [self.ev(a) for a in n[2]]
        try:
            f = self.lookup(n[1])
        except KeyError:
            raise LangErr('undefined function ' + n[1])
        if not callable(f):
            raise OtherErr('not callable')
        return f(*args)

    def ev_Dict(self, n):
        out = {}
        for k, v in n[1]:
            kk = rstr(self.ev(k))
            out[kk] = self.ev(v)
        return out

    def ev_Lambda(self, n):
        params, body = n[1], n[2]
        if any(p[0] != 'Name' for p in params):
            raise Unspec('non-name parameter')

        def f(*args):
            # names and budget of the eval in progress; the creating interpreter when the host calls f on its own
            it = _CURRENT[-1] if _CURRENT else self
            it.scopes.append({p[1]: a for p, a in zip(params, args)})
            try:
                return it.ev(body)
            finally:
                it.scopes.pop()
        f._sq_lambda = True
        return f


def run(tree, names, max_ops=None, ast_names=None):
    """returns ('value', v) | ('lang',) | ('other',) | ('any',) | ('unspec',)"""
    it = Interp(names, max_ops)
    try:
        return ('value', it.run(tree, ast_names)), it
    except LangErr:
        return ('lang',), it
    except OtherErr:
        return ('other',), it
    except AnyErr:
        return ('any',), it
    except Unspec:
        return ('unspec',), it
    except RecursionError:
        return ('other',), it
