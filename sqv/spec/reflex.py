"""Reference lexer: hand-written scanner from the frozen lexical spec (DESIGN 3.1). Not read from /repo."""
from decimal import Decimal

KEYWORDS = {
    'and': 'AND', 'or': 'OR', 'in': 'IN', 'not': 'NOT', 'if': 'IF', 'else': 'ELSE', 'True': 'TRUE', 'False': 'FALSE',
    'None': 'NONE', 'del': 'DEL', 'for': 'FOR', 'while': 'WHILE', 'break': 'BREAK', 'continue': 'CONTINUE',
    'def': 'DEF', 'raise': 'RAISE', 'elif': 'ELIF',
}
OPEN = {'(': 'LPAREN', '[': 'LBRACKET', '{': 'LBRACE'}
CLOSE = {')': 'RPAREN', ']': 'RBRACKET', '}': 'RBRACE'}
# operator matching order = PLY master regex order for string rules (decreasing regex length)
OPS = [('+=', 'SHORT_OP'), ('-=', 'SHORT_OP'), ('*=', 'SHORT_OP'), ('/=', 'SHORT_OP'), ('**', 'POWER'),
       ('==', 'EQ'), ('!=', 'NE'), ('>=', 'GTE'), ('<=', 'LTE'), ('=>', 'LAMBDA'),
       ('+', 'PLUS'), ('*', 'TIMES'), ('.', 'DOT'), ('|', 'PIPE'),
       ('=', 'ASSIGN'), ('>', 'GT'), ('<', 'LT'), ('-', 'MINUS'), ('/', 'DIVIDE'), (',', 'COMMA'), (':', 'COLON')]


class LexError(Exception):
    def __init__(self, pos, ch):
        super().__init__(f'illegal character {ch!r} at {pos}')
        self.pos = pos
        self.ch = ch


class Tok:
    __slots__ = ('kind', 'value', 'text', 'pos', 'end', 'line', 'depth')

    def __init__(self, kind, value, text, pos, end, line, depth):
        self.kind, self.value, self.text, self.pos, self.end, self.line, self.depth = kind, value, text, pos, end, line, depth

    def __repr__(self):
        return f'{self.kind}({self.text!r}@{self.pos},l{self.line},d{self.depth})'


def word(ch):
    return ch == '_' or ch.isalnum()


def digit(ch):
    return ch.isdecimal()


def unescape(body):
    return body.replace('\\n', '\n').replace('\\t', '\t').replace("\\'", "'").replace('\\"', '"')


def scan_string(s, i):
    """s[i] is a quote (or r + quote handled by caller). returns end index (exclusive) or None"""
    q = s[i]
    j = i + 1
    n = len(s)
    while j < n:
        c = s[j]
        if c == '\n':
            return None
        if c == '\\':
            if j + 1 < n and s[j + 1] != '\n':
                j += 2
                continue
            return None
        if c == q:
            return j + 1
        j += 1
    return None


def lex(s):
    """returns list of Tok; raises LexError. Tokens produced before the error are in err.tokens"""
    toks = []
    i, n, depth = 0, len(s), 0
    def line_of(pos):
        return 1 + s.count('\n', 0, pos)
    try:
        while i < n:
            c = s[i]
            if c == ' ' or c == '\t':
                i += 1
                continue
            if c == '\r' and i + 1 < n and s[i + 1] == '\n':
                if depth == 0:
                    toks.append(Tok('NEWLINE', '\r\n', '\r\n', i, i + 2, line_of(i), depth))
                i += 2
                continue
            if c == '\n':
                if depth == 0:
                    toks.append(Tok('NEWLINE', '\n', '\n', i, i + 1, line_of(i), depth))
                i += 1
                continue
            if c == ';':
                toks.append(Tok('NEWLINE', ';', ';', i, i + 1, line_of(i), depth))
                i += 1
                continue
            if c in OPEN:
                toks.append(Tok(OPEN[c], c, c, i, i + 1, line_of(i), depth))
                depth += 1
                i += 1
                continue
            if c in CLOSE:
                depth -= 1
                toks.append(Tok(CLOSE[c], c, c, i, i + 1, line_of(i), depth))
                i += 1
                continue
            # STRING (before NUMBER/NAME)
            if c in '"\'' or (c == 'r' and i + 1 < n and s[i + 1] in '"\''):
                raw = c == 'r'
                qi = i + 1 if raw else i
                e = scan_string(s, qi)
                if e is not None:
                    body = s[qi + 1:e - 1]
                    toks.append(Tok('STRING', body if raw else unescape(body), s[i:e], i, e, line_of(i), depth))
                    i = e
                    continue
                if not raw:
                    raise LexError(i, c)
                # raw prefix but unterminated string: 'r' is lexed as a NAME start below
            if digit(c):
                j = i
                while j < n and digit(s[j]):
                    j += 1
                if j + 1 < n and s[j] == '.' and digit(s[j + 1]):
                    j += 1
                    while j < n and digit(s[j]):
                        j += 1
                toks.append(Tok('NUMBER', Decimal(s[i:j]), s[i:j], i, j, line_of(i), depth))
                i = j
                continue
            if c == '%':
                j = i + 1
                while j < n and s[j] != '%' and s[j] != '\n':
                    j += 1
                if j < n and s[j] == '%':
                    toks.append(Tok('NAME', s[i:j + 1], s[i:j + 1], i, j + 1, line_of(i), depth))
                    i = j + 1
                    continue
                raise LexError(i, c)
            if word(c):  # not a digit here
                j = i
                while j < n and word(s[j]):
                    j += 1
                t = s[i:j]
                toks.append(Tok(KEYWORDS.get(t, 'NAME'), t, t, i, j, line_of(i), depth))
                i = j
                continue
            if c == '#':
                j = i
                while j < n and s[j] != '\n':
                    j += 1
                i = j
                continue
            for text, kind in OPS:
                if s.startswith(text, i):
                    toks.append(Tok(kind, text, text, i, i + len(text), line_of(i), depth))
                    i += len(text)
                    break
            else:
                raise LexError(i, c)
    except LexError as e:
        e.tokens = toks
        raise
    return toks
