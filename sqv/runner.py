"""./check <ID> quick|thorough | --replay <file>

exit 0: property held on everything explored (known findings are printed as KNOWN-FINDING lines)
exit 1: a violation that KNOWN_FINDINGS.txt does not list; one line `VIOLATION property=<ID> replay=<path>` each
exit 2: harness error (never a VIOLATION)
"""
import glob
import importlib
import os
import sys
import time
import traceback

from sqv import core
from sqv.core import HarnessError


def load_prop(pid):
    pid = pid.upper()
    try:
        return importlib.import_module(f'sqv.props.{pid.lower()}')
    except ModuleNotFoundError as e:
        if f'sqv.props.{pid.lower()}' in str(e):
            raise HarnessError(f'no such property check: {pid}')
        raise


def sanity_imports():
    """the code under test must come from the working tree the launcher names"""
    try:
        import smartquery
    except Exception as e:  # noqa
        # an unimportable tree is not a property violation
        raise HarnessError(f'cannot import smartquery from {core.REPO}: {type(e).__name__}: {e}')
    here = os.path.realpath(os.path.dirname(smartquery.__file__))
    want = os.path.realpath(os.path.join(core.REPO, 'smartquery'))
    if here != want:
        raise HarnessError(f'smartquery imported from {here}, expected {want}')


def run_replay_file(mod, path):
    doc = core.load_replay(path)
    fails = mod.run_case(doc['case'])
    return doc, fails


def main(argv):
    if len(argv) < 2:
        print(__doc__)
        return 2
    pid = argv[0].upper()
    t0 = time.time()
    try:
        sanity_imports()
        mod = load_prop(pid)
        if argv[1] == '--replay':
            doc, fails = run_replay_file(mod, argv[2])
            if fails:
                for f in fails:
                    print(f'FAIL signature={f.signature} :: {f.message[:600]}')
                print(f'VIOLATION property={pid} replay={argv[2]}')
                return 1
            print(f'replay passes: {argv[2]}')
            return 0
        tier = argv[1] if argv[1] in ('quick', 'thorough') else os.environ.get('VERIF_TIER', 'quick')
        if tier not in ('quick', 'thorough'):
            tier = 'quick'
        seed = core.env_seed()
        return run_check(mod, pid, tier, seed, t0)
    except HarnessError as e:
        print(f'HARNESS-ERROR property={pid}: {e}')
        return 2
    except Exception as e:  # noqa
        print(f'HARNESS-ERROR property={pid}: {type(e).__name__}: {e}')
        traceback.print_exc()
        return 2


def run_check(mod, pid, tier, seed, t0):
    known_all, _fixed = core.load_known()
    known = [k for k in known_all if k.prop == pid]
    violations = []      # (Failure, replay path)
    known_printed = []

    # 1. regression tier: witnesses of repaired defects and earlier findings must pass
    seed_dir = os.path.join(core.VERIF, 'replays', 'seed', pid)
    n_seed = 0
    for path in sorted(glob.glob(os.path.join(seed_dir, '*.json'))):
        n_seed += 1
        doc, fails = run_replay_file(mod, path)
        for f in fails:
            if any(core.sig_matches(k.signature, f.signature) for k in known):
                continue
            violations.append((f, os.path.relpath(path, core.VERIF)))
            break

    # 2. witnesses of known findings: print the KNOWN-FINDING line while they still reproduce
    for k in known:
        if not k.witness:
            continue
        path = os.path.join(core.VERIF, k.witness)
        doc, fails = run_replay_file(mod, path)
        if any(core.sig_matches(k.signature, f.signature) for f in fails):
            print(f'KNOWN-FINDING: property={pid} {k.text}')
            known_printed.append(k.signature)
        else:
            print(f'note: known finding no longer reproduces from its witness ({k.signature})')
        for f in fails:
            if not any(core.sig_matches(kk.signature, f.signature) for kk in known):
                violations.append((f, os.path.relpath(path, core.VERIF)))

    # 3. the generated search
    jobs = mod.jobs(tier, seed)
    stats = core.run_jobs(mod.__name__, jobs)
    stats.add('seed_replays_run', n_seed)

    unknown_budget = 12      # report at most this many distinct signatures (smallest cases first)
    ordered = sorted(stats.failures.items(), key=lambda kv: (kv[1][1].size(), kv[0]))
    for sig, (cnt, f) in ordered:
        kmatch = [k for k in known if core.sig_matches(k.signature, sig)]
        if kmatch:
            if kmatch[0].signature not in known_printed:
                print(f'KNOWN-FINDING: property={pid} {kmatch[0].text}')
                known_printed.append(kmatch[0].signature)
            continue
        if unknown_budget <= 0:
            continue
        unknown_budget -= 1
        if hasattr(mod, 'shrink'):
            try:
                f = mod.shrink(f) or f
            except Exception:  # noqa  shrinking is best effort
                pass
        path = core.write_replay(pid, f)
        violations.append((f, os.path.relpath(path, core.VERIF)))

    extra = mod.finish(stats, tier) if hasattr(mod, 'finish') else None
    exhaustive = extra.pop('exhaustive', None) if extra else None
    wall = time.time() - t0
    core.write_evidence(pid, tier, seed, getattr(mod, 'LEVEL', 'exploration'), stats, mod.RULE, wall, len(violations),
                        getattr(mod, 'ASSUMPTIONS', []), extra_cov=extra, exhaustive=exhaustive,
                        known_printed=known_printed)
    print(f'{pid} {tier} seed={seed}: {stats.evaluations} cases, {stats.distinct_nontrivial} distinct non-trivial, '
          f'{len(violations)} violation(s), {wall:.1f}s')
    if stats.evaluations == 0 or stats.distinct_nontrivial < 2:
        print(f'HARNESS-ERROR property={pid}: vacuous run (no non-trivial cases)')
        return 2
    if violations:
        for f, path in violations:
            print(f'  signature={f.signature} :: {f.message[:500]}')
            print(f'VIOLATION property={pid} replay={path}')
        return 1
    return 0


if __name__ == '__main__':
    sys.exit(main(sys.argv[1:]))
