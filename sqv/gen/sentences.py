"""Random sentences of the grammar as marked neutral trees (one composite, plain recursion over `draw`)."""
from decimal import Decimal as D

from hypothesis import strategies as st

from sqv.spec.unparse import BINL

NAMES = ['a', 'b', 'c', 'f', 'g', 'x', '_', 'a', 'b', '_1']
BINOPS = list(BINL)
NONE = ('Val', None)
SLICE_FORMS = ['a:b', 'a:', ':b', '::c', ':', 'a::', ':b:']


class G:
    """generator over a `draw` callable"""

    def __init__(self, draw, names=NAMES, trailing_commas=True, expr_params=True, blanks=False):
        self.draw = draw
        self.names = names
        self.tc = trailing_commas
        self.expr_params = expr_params
        self._int = {}
        self.blanks = blanks
        if blanks:
            self.names = list(names) + ['%a b%', '%a  b%', '%a\tb%', '% a%', '%a\rb%', '%a\x0cb%', '%a\u2028b%', '%a\x85b%', '%a\xa0b%']

    def n(self, k):
        """integer in [0, k)"""
        s = self._int.get(k)
        if s is None:
            s = self._int[k] = st.integers(0, k - 1)
        return self.draw(s)

    def pick(self, xs):
        return xs[self.n(len(xs))]

    def comma(self):
        return ',' if self.tc and self.n(6) == 0 else ''

    def atom(self):
        r = self.n(20)
        if r < 10:
            return ('Name', self.pick(self.names))
        if r < 15:
            return ('Val', D(self.pick(['1', '2', '3.5', '0', '10.25'])))
        if r < 17:
            return ('Val', self.pick(['s', 'q', '', 'a b', 'a  b', 'a\tb', ' ', '  ', 'a b ', 'a b  ', 'a\x0bb', 'a\x0cb', 'a\x1cb', 'a\x85b', 'a\u2028b', 'a\u2029b', 'a\xa0b', 'x = 1\u2028y']) if self.blanks else self.pick(['s', 'q', '']))
        return ('Val', self.pick([True, False, None]))

    def expr(self, d):
        if d <= 0 or self.n(9) < 2:
            return self.atom()
        k = self.n(15)
        e = self.expr
        if k <= 3:
            return ('Bin', self.pick(BINOPS), e(d - 1), e(d - 1))
        if k == 4:
            return ('Un', self.pick(['-', 'not']), e(d - 1))
        if k == 5:
            return ('If', e(d - 1), e(d - 1), e(d - 1))
        if k == 6:
            args = [e(d - 1) for _ in range(self.n(4))]
            return ('Call', self.pick(['f', 'g']), args, 'call' + (self.comma() if args else ''))
        if k == 7:
            kind = self.pick(['dot', 'pipe'])
            args = [e(d - 1) for _ in range(1 + self.n(3))]
            return ('Call', self.pick(['f', 'g']), args, kind + (self.comma() if len(args) > 1 else ''))
        if k == 8:
            args = [e(d - 1) for _ in range(self.n(4))]
            return ('Call', 'list', args, 'lit' + (self.comma() if args else ''))
        if k == 9:
            if self.n(5) == 0:
                return ('Call', 'dict', [], 'lit')
            items = [(e(d - 1), e(d - 1)) for _ in range(1 + self.n(3))]
            return ('Dict', items, self.comma())
        if k == 10:
            return ('Call', '__getitem__', [e(d - 1), e(d - 1)], 'idx')
        if k == 11:
            form = self.pick(SLICE_FORMS)
            a, b, c = e(d - 1), e(d - 1), e(d - 1)
            sl = {'a:b': [a, b, NONE], 'a:': [a, NONE, NONE], ':b': [NONE, b, NONE], '::c': [NONE, NONE, c],
                  ':': [NONE, NONE, NONE], 'a::': [a, NONE, NONE], ':b:': [NONE, b, NONE]}[form]
            return ('Call', '__getitem__', [e(d - 1), ('Slice', sl)], 'slice:' + form)
        if k == 12:
            n = 1 + self.n(3)
            params = [('Name', self.pick(self.names)) for _ in range(n)]
            style = 'bare' if n == 1 and self.n(10) < 6 else 'paren'
            if self.expr_params and n > 1 and self.n(8) == 0:
                # the grammar's parameter list is `arglist COMMA NAME`: earlier items may be any expression
                params[0] = e(min(d - 1, 1))
            return ('Lambda', params, e(d - 1), style)
        return ('Bin', self.pick(['+', '-', '*', '**', 'and', 'or', '<', 'not in', 'in', '==']), e(d - 1), e(d - 1))

    def stmt(self, d):
        r = self.n(100)
        e = self.expr
        if r < 15:
            return ('Assign', self.pick(self.names), e(d))
        if r < 25:
            return ('Short', self.pick(self.names), self.pick(['+=', '-=', '*=', '/=']), e(d))
        if r < 33:
            return ('Call', '__setitem__', [e(d - 1), e(d - 1), e(d)], 'stmt')
        if r < 40:
            return ('Call', '__setitem_with_op__', [e(d - 1), e(d - 1), ('Val', self.pick(['+=', '-=', '*=', '/='])), e(d)],
                    'stmt')
        if r < 47:
            return ('Call', '__delitem__', [e(d - 1), e(d - 1)], 'stmt')
        return e(d)


@st.composite
def programs(draw, max_depth=5, max_stmts=3, trailing_commas=True, blanks=False):
    """list of marked statement trees; blanks: literals and %names% that differ only in their inner blanks / tabs"""
    g = G(draw, trailing_commas=trailing_commas, blanks=blanks)
    n = 1 + g.n(max_stmts)
    return [g.stmt(1 + g.n(max_depth)) for _ in range(n)]
