"""Type-directed program generator (DESIGN 3.4): marked neutral trees over every operator, statement form,
slice form and deterministic builtin.  One composite; plain recursion over `draw`.

Types: Dec Str Bool LDec LStr DDec LL (list of lists of Dec) DL (dict of lists of Dec)
Variables live in a host-supplied environment (see `env_strategy`); lambdas are generated inline for the
higher-order builtins and as named definitions (`fa = v => ...`) that later statements call.
"""
from decimal import Decimal as D

from hypothesis import strategies as st

NONE = ('Val', None)
VARS = {'Dec': ['n', 'm'], 'Str': ['s', 'u'], 'LDec': ['xs', 'ys'], 'LStr': ['ws'], 'DDec': ['dd'], 'Bool': ['b'],
        'LL': ['nn'], 'DL': ['dl']}
ALLTYPES = list(VARS)
DEC_LITS = ['0', '1', '2', '3', '7', '10', '12', '2.5', '0.5', '1.50', '99.25', '0.125', '100', '1000000',
            '123456789012345678901234567890', '0.1', '0.2', '0.3', '3.0']
STR_LITS = ['', 'a', 'ab', 'ab,c', 'x y', 'Ab1', ' pad ', 'a,b,,c', '12', 'zz', 'A', 'hello world']
KEY_LITS = ['a', 'b', '1', '2', 'k', 'zz']


def Val(v):
    return ('Val', v)


def Name(v):
    return ('Name', v)


def Call(name, args, mark='call'):
    return ('Call', name, list(args), mark)


def Bin(op, a, b):
    return ('Bin', op, a, b)


def Lam(params, body):
    return ('Lambda', [Name(p) for p in params], body, 'bare' if len(params) == 1 else 'paren')


class T:
    """typed generator over a `draw` callable"""

    def __init__(self, draw, fns=(), allow_errors=True, regex=True, effects=False):
        self.effects = effects        # operands may pop from / measure host lists, so evaluation order is observable
        self.draw = draw
        self._int = {}
        self.fns = dict(fns)          # name -> (param types, result type) of lambdas defined so far
        self.allow_errors = allow_errors
        self.regex = regex
        self.locals = []              # stack of {name: type} for lambda parameters in scope
        self.used = set()             # operator / builtin / form labels used (for coverage + non-triviality)

    def n(self, k):
        s = self._int.get(k)
        if s is None:
            s = self._int[k] = st.integers(0, k - 1)
        return self.draw(s)

    def pick(self, xs):
        return xs[self.n(len(xs))]

    def use(self, label):
        self.used.add(label)

    def style(self, name, args):
        """print a call as f(a, ..), a.f(..) or a | f(..)"""
        self.use('fn:' + name)
        r = self.n(5)
        if r == 0 and args:
            self.use('form:dot')
            return Call(name, args, 'dot')
        if r == 1 and args:
            self.use('form:pipe')
            return Call(name, args, 'pipe')
        return Call(name, args, 'call')

    # ---- variables
    def var(self, t):
        for sc in reversed(self.locals):
            cands = [k for k, v in sc.items() if v == t]
            if cands and self.n(2) == 0:
                return Name(self.pick(cands))
        return Name(self.pick(VARS[t]))

    def index(self, small=True):
        """an index expression: mostly small in-range integers, sometimes decimal / negative / out of range"""
        r = self.n(12)
        if r < 6:
            return Val(D(self.pick(['0', '1', '0', '2'])))
        if r < 8:
            return ('Un', '-', Val(D(self.pick(['1', '2']))))
        if r == 8:
            return Val(D(self.pick(['1.9', '0.5', '1.0'])))
        if r == 9 and self.allow_errors:
            return Val(D(self.pick(['7', '99'])))
        return Val(D('0'))

    def effect(self):
        """a Dec-typed operand with a side effect on, or a reading of, a list variable"""
        self.use('operand:effect')
        v = Name(self.pick(VARS['LDec']))
        if self.n(3) == 0:
            return Call('len', [v], 'call')
        return self.style('pop', [v])

    def key(self):
        if self.effects and self.n(5) == 0:
            return self.effect()
        r = self.n(8)
        if r < 3:
            return Val('a')
        if r < 5:
            return Val(self.pick(KEY_LITS))
        if r == 5:
            return Val(D(self.pick(['1', '2', '1.0'])))
        if r == 6:
            return self.gen('Str', 0)
        return Val(self.pick(['a', 'b']))

    # ---- expressions by type
    def gen(self, t, d):
        leaf = d <= 0 or self.n(4) == 0
        return getattr(self, 'g_' + t)(d, leaf)

    def cond_of(self, t, d):
        self.use('ifelse')
        return ('If', self.gen('Bool', d - 1), self.gen(t, d - 1), self.gen(t, d - 1))

    def g_Dec(self, d, leaf):
        g = self.gen
        if leaf:
            if self.effects and self.n(7) == 0:
                return self.effect()
            if self.n(2) == 0:
                return self.var('Dec')
            return Val(D(self.pick(DEC_LITS)))
        c = self.n(24)
        if c <= 3:
            op = ['+', '-', '*', '/'][c]
            self.use('op:' + op)
            return Bin(op, g('Dec', d - 1), g('Dec', d - 1))
        if c == 4:
            self.use('op:neg')
            return ('Un', '-', g('Dec', d - 1))
        if c == 5:
            self.use('fn:len')
            return Bin('+', Call('len', [g(self.pick(['Str', 'LDec', 'LStr', 'DDec', 'LL']), d - 1)]), g('Dec', d - 1))
        if c == 6:
            self.use('index:list')
            return Call('__getitem__', [g('LDec', d - 1), self.index()], 'idx')
        if c == 7:
            self.use('index:dict')
            return Call('__getitem__', [g('DDec', d - 1), self.key()], 'idx')
        if c == 8:
            return self.cond_of('Dec', d)
        if c == 9:
            fn = self.pick(['int', 'floor', 'ceil', 'abs', 'round'])
            return self.style(fn, [g('Dec', d - 1)])
        if c == 10:
            return self.style('round', [g('Dec', d - 1), Val(D(str(self.n(5))))])
        if c == 11:
            return self.style(self.pick(['sum', 'min', 'max']), [g('LDec', d - 1)])
        if c == 12:
            return Call(self.pick(['min', 'max']), [g('Dec', d - 1), g('Dec', d - 1)])
        if c == 13:
            self.use('fn:reduce')
            return self.style('reduce', [g('LDec', d - 1), Lam(['acc', 'v'], Bin(self.pick(['+', '-', '*']), Name('acc'), Name('v')))])
        if c == 14:
            args = [g('DDec', d - 1), self.key()]
            if self.n(2):
                args.append(g('Dec', 0))
            return self.style('get', args)
        if c == 15:
            op = self.pick(['and', 'or'])
            self.use('op:' + op)
            return Bin(op, g('Dec', d - 1), g('Dec', d - 1))
        if c == 16:
            self.use('op:**')
            return Bin('**', g('Dec', d - 1), Val(D(self.pick(['2', '3', '0', '1', '0.5']))))
        if c == 17:
            self.use('fn:split')
            return Bin('*', Call('len', [Call('split', [g('Str', d - 1), Val(',')])]), Val(D(1)))
        if c == 18:
            self.use('index:nested')
            return Call('__getitem__', [Call('__getitem__', [g('LL', d - 1), self.index()], 'idx'), self.index()], 'idx')
        if c == 19 and self.fns:
            return self.call_fn('Dec', d)
        if c == 20:
            self.use('fn:index_of')
            return Bin('+', Bin('or', Call('index_of', [g('LDec', d - 1), g('Dec', 0)]), Val(D(0))), Val(D(0)))
        if c == 21:
            fn = self.pick(['int', 'float'])
            self.use('fn:' + fn)
            return Call(fn, [Val(self.pick(['12', '7', '0', '-3']))]) if fn == 'int' else \
                Call(fn, [Val(self.pick(['1.5', '0.25', '2', '-0.5']))])
        if c == 22:
            self.use('fn:len')
            return Bin('*', Call('len', [g('Str', d - 1)]), Val(D(2)))
        return Bin('+', g('Dec', d - 1), g('Dec', d - 1))

    def call_fn(self, t, d):
        cands = [(k, v) for k, v in self.fns.items() if v[1] == t]
        if not cands:
            return self.gen(t, 0)
        name, (ptypes, _) = self.pick(cands)
        self.use('call:user-lambda')
        return Call(name, [self.gen(pt, d - 1) for pt in ptypes])

    def slice_of(self, base):
        form = self.pick(['a:b', 'a:', ':b', '::c', ':', 'a::', ':b:'])
        self.use('slice:' + form)
        lo = Val(D(self.pick(['0', '1', '2', '1.5', '0.0']))) if self.n(4) else ('Un', '-', Val(D(self.pick(['1', '2', '3', '0']))))
        hi = Val(D(self.pick(['1', '2', '3', '4', '9', '0', '0', '0.0']))) if self.n(4) else ('Un', '-', Val(D(self.pick(['1', '0']))))
        stp = Val(D(self.pick(['1', '2', '0']))) if self.n(3) else ('Un', '-', Val(D('1')))
        if self.n(6) == 0:
            hi = Bin('-', Call('len', [Val('a')]), Val(D(1)))       # a stop that only evaluates to zero
        sl = {'a:b': [lo, hi, NONE], 'a:': [lo, NONE, NONE], ':b': [NONE, hi, NONE], '::c': [NONE, NONE, stp],
              ':': [NONE, NONE, NONE], 'a::': [lo, NONE, NONE], ':b:': [NONE, hi, NONE]}[form]
        return Call('__getitem__', [base, ('Slice', sl)], 'slice:' + form)

    def g_Str(self, d, leaf):
        g = self.gen
        if leaf:
            if self.n(2) == 0:
                return self.var('Str')
            return Val(self.pick(STR_LITS))
        c = self.n(16)
        if c == 0:
            self.use('op:+str')
            return Bin('+', g('Str', d - 1), g(self.pick(['Str', 'Dec', 'Bool']), d - 1))
        if c == 1:
            fn = self.pick(['upper', 'lower', 'strip', 'strip'])
            if fn == 'strip' and self.n(2):
                # strip only shows on strings with outer blanks
                return self.style('strip', [Bin('+', Val(self.pick([' ', '\t', '  ', ''])), Bin('+', g('Str', d - 1), Val(self.pick([' ', ' \t', '  ', '\n']))))])
            return self.style(fn, [g('Str', d - 1)])
        if c == 2:
            return self.style('str', [g(self.pick(['Dec', 'Bool', 'Str']), d - 1)])
        if c == 3:
            return self.slice_of(g('Str', d - 1))
        if c == 4:
            return self.style('join', [g('LStr', d - 1), Val(self.pick([', ', '-', '']))])
        if c == 5:
            return self.style('join', [g('LDec', d - 1)])
        if c == 6:
            args = [g('Str', d - 1), Val(self.pick(['a', 'b', 'x', ',', ' '])), Val(self.pick(['', 'Z', 'yy']))]
            if self.n(3) == 0:
                args.append(Val(D(self.pick(['1', '2', '0']))))
            return self.style('replace', args)
        if c == 7:
            return self.cond_of('Str', d)
        if c == 8:
            return self.style('reversed', [g('Str', d - 1)])
        if c == 9:
            self.use('index:list')
            return Call('__getitem__', [g('LStr', d - 1), self.index()], 'idx')
        if c == 10:
            self.use('index:str')
            return Call('__getitem__', [g('Str', d - 1), self.index()], 'idx')
        if c == 11:
            t = self.pick(['LDec', 'LStr', 'DDec', 'Dec', 'Str'])
            args = [g(t, d - 1)]
            if self.n(3) == 0 and t != 'Str':
                args.append(Val(self.pick(['; ', '_', ' '])))
            if t == 'Dec':
                args[0] = Call('int', [args[0]])
            return self.style('pretty', args)
        if c == 12 and self.regex:
            pat = self.pick([r'\d+', '[a-c]+', 'a.', r'(a)(b)?', 'x|y', r'\w+', '^a', 'b$'])
            self.use('fn:match')
            return Bin('or', Call('match', [g('Str', d - 1), Val(pat)] + ([Val(self.pick(['i', 'ims', '']))] if self.n(3) == 0 else [])), Val('none'))
        if c == 13:
            self.use('op:or')
            return Bin(self.pick(['and', 'or']), g('Str', d - 1), g('Str', d - 1))
        if c == 14 and self.fns:
            return self.call_fn('Str', d)
        return Bin('+', g('Str', d - 1), g('Str', d - 1))

    def g_Bool(self, d, leaf):
        g = self.gen
        if leaf:
            if self.n(3) == 0:
                return self.var('Bool')
            return Val(self.pick([True, False]))
        c = self.n(10)
        if c == 0:
            op = self.pick(['==', '!=', '<', '>', '<=', '>='])
            self.use('op:' + op)
            tt = self.pick(['Dec', 'Str'])
            return Bin(op, g(tt, d - 1), g(tt, d - 1))
        if c == 1:
            self.use('op:not')
            return ('Un', 'not', g(self.pick(['Bool', 'Dec', 'Str', 'LDec']), d - 1))
        if c == 2:
            op = self.pick(['in', 'not in'])
            self.use('op:' + op)
            return Bin(op, g('Dec', d - 1), g('LDec', d - 1))
        if c == 3:
            op = self.pick(['in', 'not in'])
            self.use('op:' + op)
            return Bin(op, g('Str', d - 1), g('Str', d - 1))
        if c == 4:
            fn = self.pick(['startswith', 'endswith'])
            self.use('fn:' + fn)
            return Call(fn, [g('Str', d - 1), g('Str', 0)], self.pick(['dot', 'call', 'pipe']))
        if c == 5:
            op = self.pick(['and', 'or'])
            self.use('op:' + op)
            return Bin(op, g('Bool', d - 1), g('Bool', d - 1))
        if c == 6:
            self.use('op:in-dict')
            return Bin(self.pick(['in', 'not in']), Val(self.pick(KEY_LITS)), g('DDec', d - 1))
        if c == 7:
            self.use('op:==list')
            return Bin(self.pick(['==', '!=']), g('LDec', d - 1), g('LDec', d - 1))
        if c == 8:
            return self.cond_of('Bool', d)
        self.use('op:==none')
        return Bin('==', Call('get', [g('DDec', d - 1), self.key()]), NONE)

    def lam1(self, ptype, rtype, d):
        """one-parameter lambda whose body may use the parameter"""
        # may shadow a host name of the same type on purpose
        p = self.pick(['v', 'w'] + (['n'] if ptype == 'Dec' else []) + (['s'] if ptype == 'Str' else []))
        self.locals.append({p: ptype})
        try:
            body = self.gen(rtype, d)
        finally:
            self.locals.pop()
        self.use('lambda')
        if self.n(8) == 0:
            # one more parameter than the caller supplies: it stays unbound (never read, or resolved in the enclosing scopes)
            self.use('lambda:under-applied')
            return Lam([p, self.pick(['zq', 'm', 'u'])], body)
        return Lam([p], body)

    def g_list(self, t, et, d, leaf):
        g = self.gen
        if leaf:
            if self.n(2) == 0:
                return self.var(t)
            self.use('literal:list')
            return Call('list', [g(et, 0) for _ in range(self.n(5))], 'lit')
        c = self.n(14)
        if c == 0:
            return self.style('map', [g(t, d - 1), self.lam1(et, et, d - 1)])
        if c == 1:
            return self.style('filter', [g(t, d - 1), self.lam1(et, 'Bool', d - 1)])
        if c == 2:
            rev = self.pick([None, True, False])
            if rev is None:
                return self.style('sorted', [g(t, d - 1)])
            return self.style('sorted', [g(t, d - 1), NONE, Val(rev)])
        if c == 3:
            return self.style('reversed', [g(t, d - 1)])
        if c == 4:
            self.use('op:+list')
            return Bin('+', g(t, d - 1), g(t, d - 1))
        if c == 5:
            return self.slice_of(g(t, d - 1))
        if c == 6 and t == 'LStr':
            args = [g('Str', d - 1)]
            if self.n(3):
                args.append(Val(self.pick([',', ' ', 'a'])))
                if self.n(3) == 0:
                    args.append(Val(D(self.pick(['1', '2']))))
            return self.style('split', args)
        if c == 6:
            return self.style('values', [g('DDec', d - 1)])
        if c == 7 and t == 'LStr':
            return self.style('keys', [g('DDec', d - 1)])
        if c == 7:
            self.use('index:nested')
            return Call('__getitem__', [g('LL', d - 1), self.index()], 'idx')
        if c == 8:
            return self.cond_of(t, d)
        if c == 9 and t == 'LDec':
            return self.style('sorted', [g(t, d - 1), self.lam1('Dec', 'Dec', min(d - 1, 1))] + ([Val(True)] if self.n(2) else []))
        if c == 9 and self.regex:
            self.use('fn:match_all')
            return Call('match_all', [g('Str', d - 1), Val(self.pick([r'\d', '[a-c]', r'\w+', 'a|b']))])
        if c == 10 and t == 'LStr':
            return self.style('map', [g('LDec', d - 1), Lam(['v'], Call('str', [Name('v')]))])
        if c == 10:
            return self.style('map', [g('LStr', d - 1), Lam(['v'], Call('len', [Name('v')]))]) if self.n(2) else \
                self.style('map', [g('DDec', d - 1), Lam(['k', 'v'], Bin('+', Name('v'), Val(D(1))))])
        if c == 11 and t == 'LStr' and self.regex:
            self.use('fn:match_groups')
            return Bin('or', Call('match_groups', [g('Str', d - 1), Val(self.pick([r'(a)(b)', r'(\d)(\w)?', '(x)|(y)']))]), Call('list', [], 'lit'))
        if c == 12 and self.fns:
            return self.call_fn(t, d)
        self.use('literal:list')
        return Call('list', [g(et, d - 1) for _ in range(self.n(4))], 'lit')

    def g_LDec(self, d, leaf):
        return self.g_list('LDec', 'Dec', d, leaf)

    def g_LStr(self, d, leaf):
        return self.g_list('LStr', 'Str', d, leaf)

    def g_DDec(self, d, leaf):
        g = self.gen
        if leaf or self.n(2):
            if self.n(2) == 0:
                return self.var('DDec')
            self.use('literal:dict')
            k = self.n(4)
            if k == 0:
                return Call('dict', [], 'lit')
            return ('Dict', [(self.key(), g('Dec', 0)) for _ in range(k)], '')
        c = self.n(5)
        if c == 0:
            rev = self.n(2) == 0
            return self.style('sorted', [g('DDec', d - 1)] + ([NONE, Val(True)] if rev else []))
        if c == 1:
            self.use('fn:sorted-dict-key')
            return self.style('sorted', [g('DDec', d - 1), Lam(['k', 'v'], self.pick([Name('v'), Name('k'), ('Un', '-', Name('v'))]))])
        if c == 2:
            self.use('fn:dict')
            return Call('dict', [g('DDec', d - 1)])
        if c == 3:
            return self.cond_of('DDec', d)
        self.use('index:dict')
        return Call('__getitem__', [Call('list', [g('DDec', d - 1)], 'lit'), Val(D(0))], 'idx')

    def g_LL(self, d, leaf):
        if leaf or self.n(2):
            if self.n(2) == 0:
                return self.var('LL')
            self.use('literal:nested')
            return Call('list', [self.gen('LDec', 0) for _ in range(self.n(3))], 'lit')
        c = self.n(4)
        if c == 0:
            return self.style('reversed', [self.gen('LL', d - 1)])
        if c == 1:
            return self.slice_of(self.gen('LL', d - 1))
        if c == 2:
            return self.style('values', [self.gen('DL', d - 1)])
        self.use('fn:enumerate')
        return self.style('map', [Call('enumerate', [self.gen('LDec', d - 1)]),
                                  Lam(['p'], Call('list', [Call('__getitem__', [Name('p'), Val(D(0))], 'idx'),
                                                           Call('__getitem__', [Name('p'), Val(D(1))], 'idx')], 'lit'))])

    def g_DL(self, d, leaf):
        if self.n(2) == 0:
            return self.var('DL')
        self.use('literal:dict-nested')
        return ('Dict', [(Val(self.pick(KEY_LITS)), self.gen('LDec', 0)) for _ in range(1 + self.n(2))], '')

    # ---- statements
    def stmt(self, d):
        g = self.gen
        c = self.n(26)
        if c >= 24:
            c = 18 + (c - 24) * 2 if not getattr(self, 'has_fr', False) else 20
        if c <= 3:
            t = self.pick(ALLTYPES)
            self.use('stmt:assign')
            return ('Assign', self.pick(VARS[t]), g(t, d))
        if c == 4:
            self.use('stmt:short')
            op = self.pick(['+=', '-=', '*=', '/='])
            self.use('short:' + op)
            return ('Short', self.pick(VARS['Dec']), op, g('Dec', d))
        if c == 5:
            self.use('stmt:short')
            self.use('short:+=str')
            return ('Short', self.pick(VARS['Str']), '+=', g(self.pick(['Str', 'Dec']), d))
        if c == 6:
            self.use('stmt:short')
            self.use('short:+=list')
            return ('Short', self.pick(VARS['LDec']), '+=', g('LDec', d))
        if c == 7:
            return self.style('push', [self.var('LDec'), g('Dec', d)])
        if c == 8:
            self.use('stmt:setitem')
            return Call('__setitem__', [self.var('LDec'), self.index(), g('Dec', d)], 'stmt')
        if c == 9:
            self.use('stmt:setitem')
            return Call('__setitem__', [Name('dd'), self.key(), g('Dec', d)], 'stmt')
        if c == 10:
            self.use('stmt:del')
            return Call('__delitem__', [Name('dd'), self.key()], 'stmt') if self.n(2) else \
                Call('__delitem__', [self.var('LDec'), self.index()], 'stmt')
        if c == 11:
            self.use('stmt:setitem_op')
            op = self.pick(['+=', '-=', '*=', '/='])
            tgt = self.pick(['list', 'dict', 'nested'])
            if tgt == 'list':
                return Call('__setitem_with_op__', [self.var('LDec'), self.index(), Val(op), g('Dec', d)], 'stmt')
            if tgt == 'dict':
                return Call('__setitem_with_op__', [Name('dd'), self.key(), Val(op), g('Dec', d)], 'stmt')
            return Call('__setitem_with_op__', [Call('__getitem__', [Name('nn'), self.index()], 'idx'), self.index(), Val(op), g('Dec', d)], 'stmt')
        if c == 12:
            name = self.pick(['fa', 'fb'])
            rt = self.pick(['Dec', 'Str', 'LDec'])
            pts = [self.pick(['Dec', 'Str', 'LDec']) for _ in range(1 + self.n(2))]
            ps = ['p', 'q'][:len(pts)]
            self.locals.append(dict(zip(ps, pts)))
            try:
                body = g(rt, d)
            finally:
                self.locals.pop()
            self.fns[name] = (pts, rt)
            self.use('stmt:lambda-def')
            return ('Assign', name, Lam(ps, body))
        if c == 18:
            self.use('stmt:recursive-lambda')
            self.has_fr = True          # not registered in self.fns: only called with small literal arguments
            body = self.pick([
                ('If', Bin('<', Name('p'), Val(D(1))), Val(D(0)), Bin('+', Call('fr', [Bin('-', Name('p'), Val(D(1)))]), Name('p'))),
                ('If', Bin('<=', Name('p'), Val(D(1))), Val(D(1)), Bin('*', Call('fr', [Bin('-', Name('p'), Val(D(1)))]), Name('p'))),
                ('If', Bin('<', Name('p'), Val(D(2))), Name('p'), Bin('+', Call('fr', [Bin('-', Name('p'), Val(D(1)))]), Call('fr', [Bin('-', Name('p'), Val(D(2)))]))),
            ])
            return ('Assign', 'fr', Lam(['p'], body))
        if c == 19:
            self.use('stmt:none-binding')
            return self.pick([('Assign', 'nv', NONE), Bin('==', Name('nv'), NONE), ('Assign', 'm', Call('len', [Call('list', [Name('nv'), Name('nv')], 'lit')])),
                              Call('call1', [Lam(['n'], Name('n')), NONE]) if False else Bin('==', Call('get', [Name('dd'), Val('no-such')]), Name('nv'))])
        if c == 20 and getattr(self, 'has_fr', False):
            self.use('call:recursive-lambda')
            return Call('fr', [Val(D(self.pick(['0', '1', '3', '4', '5'])))])
        if c == 13:
            m = self.n(4)
            if m == 0:
                return self.style('pop', [self.var('LDec')] + ([self.index()] if self.n(2) else []))
            if m == 1:
                return self.style('insert', [self.var('LDec'), self.index(), g('Dec', d)])
            if m == 2:
                return self.style('remove', [self.var('LDec'), g('Dec', 0)])
            return self.style('remove', [Name('dd'), Val(self.pick(KEY_LITS))])
        if c == 14:
            self.use('stmt:setitem')
            self.use('setitem:nested')
            return Call('__setitem__', [Call('__getitem__', [Name('nn'), self.index()], 'idx'), self.index(), g('Dec', d)], 'stmt')
        if c == 15:
            self.use('stmt:setitem')
            return Call('__setitem__', [Name('dl'), Val(self.pick(KEY_LITS)), g('LDec', d)], 'stmt')
        if c == 16:
            self.use('mutate:nested')
            return self.style('push', [Call('__getitem__', [Name('nn'), self.index()], 'idx'), g('Dec', d)])
        if c == 17:
            self.use('stmt:short')
            self.use('short:+=list')
            return Call('__setitem_with_op__', [Name('dl'), Val(self.pick(['a', 'b'])), Val('+='), g('LDec', d)], 'stmt')
        t = self.pick(ALLTYPES)
        self.use('stmt:expr')
        return g(t, d)


def D_(s):
    return D(s)


@st.composite
def env_strategy(draw):
    """host-supplied initial names (plain data)"""
    n = lambda k: draw(st.integers(0, k - 1))  # noqa
    decs = [D('2.5'), D(7), D(0), D('-1.5'), D(3), D('10.00'), D(1), 7, 0, 3]
    strs = ['ab,c', '', 'Hello', 'a b', 'x1', 'abcabc']
    pick = lambda xs: xs[n(len(xs))]  # noqa
    dec = lambda: pick(decs[:7])  # noqa   (Decimals only inside containers)
    return {
        'n': pick(decs), 'm': pick(decs), 's': pick(strs), 'u': pick(strs),
        'xs': [dec() for _ in range(2 + n(4))], 'ys': [dec() for _ in range(n(3))],
        'ws': [pick(strs) for _ in range(n(4))],
        'dd': {**({'a': dec()} if n(4) else {}), **{pick(KEY_LITS): dec() for _ in range(n(4))}},
        'b': bool(n(2)),
        'nn': [[dec() for _ in range(1 + n(3))] for _ in range(1 + n(3))],
        'dl': {pick(['a', 'b', 'k']): [dec() for _ in range(n(3))] for _ in range(n(3))},
        'nv': None,
    }


@st.composite
def programs(draw, max_stmts=6, max_depth=3, allow_errors=True, regex=True, effects=False):
    """-> (list of marked statement trees, env, labels used)"""
    t = T(draw, allow_errors=allow_errors, regex=regex, effects=effects)
    k = 1 + t.n(max_stmts)
    stmts = [t.stmt(t.n(max_depth + 1)) for _ in range(k)]
    if t.n(12) == 0:
        # every evaluation of a literal yields a fresh object
        empty = t.pick([Call('list', [], 'lit'), Call('dict', [], 'lit'), Call('list', [Call('list', [], 'lit')], 'lit')])
        t.use('literal:fresh-per-evaluation')
        stmts += [('Assign', 'nn', Call('map', [Call('list', [Val(D(1)), Val(D(2)), Val(D(3))], 'lit'), Lam(['v'], empty)])),
                  Call('push', [Call('__getitem__', [Name('nn'), Val(D(0))], 'idx'), Val(D(9))]) if empty[1] == 'list' else
                  Call('__setitem__', [Call('__getitem__', [Name('nn'), Val(D(0))], 'idx'), Val('k'), Val(D(9))], 'stmt'),
                  Name('nn')]
    env = draw(env_strategy())
    return stmts, env, sorted(t.used)
