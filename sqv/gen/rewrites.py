"""Meaning-preserving surface rewrites (C15): tree-level (call style, trailing commas, redundant parentheses) and
token-gap level (spaces/tabs, comments, line breaks inside brackets, ; <-> newline, blank statements, CRLF).

Every random decision goes through a chooser with `n(k)` (Hypothesis-backed or scripted), and records what was applied.
"""
from sqv.spec import reflex

NONE = ('Val', None)
SPECIAL = ('__getitem__', '__setitem__', '__setitem_with_op__', '__delitem__')


class Scripted:
    """chooser that applies exactly one rewrite: the `target`-th opportunity of kind `kind` (every-position sweeps)"""

    def __init__(self, kind, target, variant=0):
        self.kind, self.target, self.variant = kind, target, variant
        self.count = 0
        self.applied = []

    def want(self, kind):
        if kind != self.kind:
            return False
        self.count += 1
        if self.count - 1 == self.target:
            self.applied.append(kind)
            return True
        return False

    def n(self, k):
        return self.variant % k


class Drawn:
    """chooser backed by a Hypothesis draw; applies each opportunity with probability 1/odds"""

    def __init__(self, draw, st, odds=4, kinds=None):
        self.draw, self.st, self.odds, self.kinds = draw, st, odds, kinds
        self.applied = []
        self._s = {}

    def n(self, k):
        s = self._s.get(k)
        if s is None:
            s = self._s[k] = self.st.integers(0, k - 1)
        return self.draw(s)

    def want(self, kind):
        if self.kinds is not None and kind not in self.kinds:
            return False
        if self.n(self.odds) == 0:
            self.applied.append(kind)
            return True
        return False


# ------------------------------------------------------------------------------------------------ tree level
def tx_expr(e, ch):
    k = e[0]
    if k in ('Name', 'Val'):
        out = e
    elif k == 'Bin':
        out = ('Bin', e[1], tx_expr(e[2], ch), tx_expr(e[3], ch))
    elif k == 'Un':
        out = ('Un', e[1], tx_expr(e[2], ch))
    elif k == 'If':
        out = ('If', tx_expr(e[1], ch), tx_expr(e[2], ch), tx_expr(e[3], ch))
    elif k == 'Dict':
        items = [(tx_expr(a, ch), tx_expr(b, ch)) for a, b in e[1]]
        comma = e[2] if len(e) > 2 else ''
        if items and ch.want('comma:dict' + ('-n' if len(items) > 1 else '-1')):
            comma = '' if comma else ','
        out = ('Dict', items, comma)
    elif k == 'Lambda':
        out = ('Lambda', e[1], tx_expr(e[2], ch)) + tuple(e[3:])
    elif k == 'Slice':
        out = ('Slice', [p if p == NONE else tx_expr(p, ch) for p in e[1]])
    elif k == 'Paren':
        out = ('Paren', tx_expr(e[1], ch), e[2])
    elif k == 'Call':
        mark = e[3] if len(e) > 3 else 'call'
        base = (mark or 'call').rstrip(',')
        comma = ',' if (mark or '').endswith(',') else ''
        if base == 'stmt' or e[1] in SPECIAL and base not in ('call', 'dot', 'pipe'):
            args = [a if (a[0] == 'Val' and e[1] == '__setitem_with_op__' and i == 2) else tx_expr(a, ch) for i, a in enumerate(e[2])]
            return ('Call', e[1], args, mark)
        args = [tx_expr(a, ch) for a in e[2]]
        if base == 'lit':
            if e[1] == 'list' and args and ch.want('comma:list' + ('-n' if len(args) > 1 else '-1')):
                comma = '' if comma else ','
            out = ('Call', e[1], args, 'lit' + comma)
        else:
            if args and ch.want('style'):
                base = [b for b in ('call', 'dot', 'pipe') if b != base][ch.n(2)]
            n_explicit = len(args) if base == 'call' else len(args) - 1
            if base in ('dot', 'pipe') and not args:
                base = 'call'
                n_explicit = 0
            if n_explicit >= 1 and ch.want(f'comma:{base}' + ('-n' if n_explicit > 1 else '-1')):
                comma = '' if comma else ','
            if n_explicit < 1:
                comma = ''
            out = ('Call', e[1], args, base + comma)
    else:
        raise ValueError(k)
    if k != 'Slice' and ch.want('paren'):
        depth = 1 + ch.n(3)
        if ch.n(16) == 0:
            depth = [49, 51, 64, 130, 300][ch.n(5)]       # redundant parentheses are insignificant at any depth
        out = ('Paren', out, depth)
    return out


def tx_stmt(s, ch):
    k = s[0]
    if k == 'Assign':
        return ('Assign', s[1], tx_expr(s[2], ch))
    if k == 'Short':
        return ('Short', s[1], s[2], tx_expr(s[3], ch))
    if k == 'Call' and len(s) > 3 and s[3] == 'stmt':
        args = [a if (s[1] == '__setitem_with_op__' and i == 2) else tx_expr(a, ch) for i, a in enumerate(s[2])]
        return ('Call', s[1], args, 'stmt')
    return tx_expr(s, ch)


# ------------------------------------------------------------------------------------------------ token-gap level
OPEN = ('LPAREN', 'LBRACKET', 'LBRACE')


def gap_depth(t):
    return t.depth + 1 if t.kind in OPEN else t.depth


class Gaps:
    """token/gap model of a text: gaps[i] is the text before token i, gaps[-1] the trailing text"""

    def __init__(self, text):
        self.toks = reflex.lex(text)
        self.pieces, self.gaps = [], []
        pos = 0
        for t in self.toks:
            self.gaps.append(text[pos:t.pos])
            self.pieces.append(t.text)
            pos = t.end
        self.gaps.append(text[pos:])
        self.locked = set()     # newline tokens that end a comment: must stay newlines

    def text(self):
        out = self.gaps[0]
        for i in range(len(self.toks)):
            out += self.pieces[i] + self.gaps[i + 1]
        return out


def gap_rewrite(text, ch):
    """apply gap-level rewrites chosen by `ch`; -> new text"""
    g = Gaps(text)
    toks = g.toks
    n = len(toks)
    if not n:
        return text
    # spaces / tabs in any gap
    for i in range(n + 1):
        if ch.want('ws'):
            g.gaps[i] += [' ', '\t', '  \t '][ch.n(3)]
    # line breaks (LF / CRLF) and comments inside brackets: any gap after a token at depth > 0
    for i in range(n - 1):
        if gap_depth(toks[i]) > 0:
            if ch.want('nl-in-brackets'):
                g.gaps[i + 1] += ['\n', '\r\n', '\n\n  ', '\r\n\t'][ch.n(4)]
            if ch.want('comment-in-brackets'):
                g.gaps[i + 1] += [' # c, ) ] "\n', '#\n', ' # x = 1; y\r\n', ' # end;\n', '#;\r\n', ' # \\\n', " # '\n", ' # (\n'][ch.n(8)]
    # comment before a line end / at the end of the text
    for i, t in enumerate(toks):
        if t.kind == 'NEWLINE' and g.pieces[i][0] in '\r\n' and ch.want('comment-eol'):
            g.gaps[i] += [' # note; x = 1', '#', ' # ) ] }', ' # was 2;', '#;', ' # "', " # it's", ' # \\', ' # x = (', ' # %a', ' #\t', ' # ;;', ' # a,',
                          ' # => =', ' # was\u2028- c', ' # a\x0cb = 1', ' # t\x85 * 2', ' # old:\rx = 2', ' #\x0b)', ' # \u2029', ' # \x1c\x1d\x1e'][ch.n(21)]
            g.locked.add(i)
    if ch.want('comment-eof'):
        g.gaps[-1] += ' # trailing'
        eof_comment = True
    else:
        eof_comment = False
    # ; <-> newline between top-level statements, CRLF for LF
    for i, t in enumerate(toks):
        if t.kind != 'NEWLINE' or t.depth != 0:
            continue
        if i not in g.locked and g.pieces[i] in (';', '\n', '\r\n') and ch.want('sep'):
            g.pieces[i] = ';' if g.pieces[i] != ';' else ['\n', '\r\n'][ch.n(2)]
        elif g.pieces[i] == '\n' and ch.want('crlf'):
            g.pieces[i] = '\r\n'
    # blank statements
    if ch.want('blank-lead'):
        g.gaps[0] = ['\n', ';', '\n\n', ' ;\n', '\r\n'][ch.n(5)] + g.gaps[0]
    for i, t in enumerate(toks):
        if t.kind == 'NEWLINE' and t.depth == 0 and ch.want('blank-mid'):
            g.pieces[i] += ['\n', ';', ' ; ;', '\r\n\r\n'][ch.n(4)]
    if not eof_comment and ch.want('blank-trail'):
        g.gaps[-1] += ['\n', ';', '\n\n', ';;', '\r\n'][ch.n(5)]
    return g.text()


TREE_KINDS = ['style', 'paren', 'comma:dict-1', 'comma:dict-n', 'comma:list-1', 'comma:list-n', 'comma:call-1', 'comma:call-n',
              'comma:dot-1', 'comma:dot-n', 'comma:pipe-1', 'comma:pipe-n']
GAP_KINDS = ['ws', 'nl-in-brackets', 'comment-in-brackets', 'comment-eol', 'comment-eof', 'sep', 'crlf', 'blank-lead', 'blank-mid',
             'blank-trail']
