"""Per-builtin argument shape tables (C02 sweep, C13 argument snapshots) and the value pools they draw from.

An argument spec is a short string resolved by `Args.value(spec)` into a concrete value:
  plain data (bound to a host name when used through eval) or ('lambda', source) / ('builtin', name) markers.
Builtins that are not in the table (newly exposed ones) get untyped arguments from the hostile pool.
"""
from decimal import Decimal as D

from hypothesis import strategies as st

HOSTILE = ['__class__', '__globals__', '{0.__class__.__mro__}', '%s', 'os', '/etc/hostname', '1+1', "__import__('os')",
           'r', '__init__', '{0.__init__.__globals__}', 'eval', '../../etc/passwd', '%(a)s', '{}', '__builtins__']
NUMSTR = ['12', '-3', ' 7 ', '1_000', '0x1F', '1e3', '12.7', 'abc', '', '١٢', '0b11', '1+1', 'nan', 'inf', '1e400']
STRS = ['a' * 32 + 'b', '', 'a', 'ab12', 'x y', 'Hello World', 'a,b,,c', 'aaa', ' pad ', 'AbC', 'line1\nline2']
PATS = ['(a|aa)+$', r'\d+', 'a(b)?', '(', '[a-c]+', r'(\w)(\d)', 'x|y', '^a', '$', r'(?P<n>a)', '.*']
FLAGS = ['', 'i', 'ims', 'x', 'IMS', None]
SEPS = [', ', '', '-', '\n', ' ']
KEYS = ['a', 'b', 'k', '1', 'zz', D(1), 1, True, None, D('1.0')]
SCALARS = [None, True, False, 0, 1, -2, 7, D(0), D(1), D('2.5'), D('-1.5'), D('1E+3'), 1.5, 'a', 'b', '']
LAMBDA1 = ['v => v', 'v => True', 'v => False', 'v => 0 - v', 'v => [v]', 'v => len(str(v))', 'v => v == v']
LAMBDA2 = ['(a, b) => a', '(a, b) => b', '(k, v) => v', '(k, v) => k', '(a, b) => [a, b]', '(a, b) => a == b']

SHAPES = {
    'len': [('cont',), ('str',)],
    'int': [('num',), ('numstr',)],
    'float': [('num',), ('numstr',)],
    'str': [('any',)],
    'dict': [(), ('dict',), ('pairs',)],
    'list': [(), ('any',), ('any', 'any'), ('any', 'any', 'any')],
    'startswith': [('str', 'str')], 'endswith': [('str', 'str')],
    'lower': [('str',)], 'upper': [('str',)],
    'strip': [('str',), ('str', 'str')],
    'replace': [('str', 'str', 'str'), ('str', 'str', 'str', 'int')],
    'match': [('str', 'pat'), ('str', 'pat', 'flags')],
    'match_groups': [('str', 'pat'), ('str', 'pat', 'flags')],
    'match_all': [('str', 'pat'), ('str', 'pat', 'flags')],
    'pretty': [('any',), ('cont', 'sep'), ('int',), ('num', 'sep')],
    'keys': [('dict',)], 'values': [('dict',)], 'items': [('dict',)],
    'sum': [('listnum',), ('num',), ('list',), ('nested',)],
    'get': [('dict', 'key'), ('dict', 'key', 'any')],
    '__getitem__': [('list', 'idx'), ('dict', 'key'), ('str', 'idx'), ('list', 'slice'), ('str', 'slice'), ('tuple', 'idx')],
    '__delitem__': [('list', 'idx'), ('dict', 'key')],
    '__setitem__': [('list', 'idx', 'any'), ('dict', 'key', 'any')],
    '__setitem_with_op__': [('listnum', 'idx', 'op', 'num'), ('dictnum', 'key', 'op', 'num'), ('nested', 'idx', 'op', 'list')],
    'map': [('list', 'fn1'), ('str', 'fn1'), ('dict', 'fn2'), ('tuple', 'fn1')],
    'filter': [('list', 'fn1'), ('tuple', 'fn1')],
    'reduce': [('list', 'fn2'), ('listnum', 'fn2'), ('str', 'fn2'), ('tuple', 'fn2')],
    'join': [('list',), ('list', 'sep'), ('liststr', 'sep'), ('tuple', 'sep')],
    'split': [('str',), ('str', 'sep'), ('str', 'sep', 'int')],
    'round': [('num',), ('num', 'int')],
    'floor': [('num',)], 'ceil': [('num',)], 'abs': [('num',)],
    'min': [('listnum',), ('num', 'num'), ('liststr',)], 'max': [('listnum',), ('num', 'num'), ('liststr',)],
    'rand': [(), ('int', 'int'), ('list',)],
    'push': [('list', 'any')],
    'pop': [('list',), ('list', 'idx')],
    'insert': [('list', 'idx', 'any')],
    'remove': [('list', 'any'), ('dict', 'key')],
    'sorted': [('listnum',), ('liststr',), ('listnum', 'fn1'), ('listnum', 'none', 'bool'), ('dictnum',), ('dictnum', 'fn2'),
               ('dictnum', 'none', 'bool'), ('list', 'fn1'), ('tuple',)],
    'reversed': [('list',), ('str',), ('tuple',)],
    'enumerate': [('list',), ('str',), ('dict',), ('tuple',)],
    'shuffle': [('list',), ('nested',)],
    'index_of': [('list', 'any'), ('str', 'str'), ('tuple', 'any')],
}
MUTATORS = {'push', 'pop', 'insert', 'remove', '__setitem__', '__setitem_with_op__', '__delitem__'}
ANY_SPECS = ['any', 'str', 'hostile', 'list', 'dict', 'fn1', 'fn2', 'builtin', 'num', 'nested', 'none', 'tuple']


class Args:
    def __init__(self, draw):
        self.draw = draw
        self._int = {}

    def n(self, k):
        s = self._int.get(k)
        if s is None:
            s = self._int[k] = st.integers(0, k - 1)
        return self.draw(s)

    def pick(self, xs):
        return xs[self.n(len(xs))]

    def scalar(self):
        return self.pick(SCALARS) if self.n(8) else self.pick(HOSTILE)

    def any(self, d=0):
        r = self.n(10)
        if d >= 3 or r < 4:
            return self.scalar()
        if r < 7:
            return [self.any(d + 1) for _ in range(self.n(4))]
        if r < 8:
            return tuple(self.any(d + 1) for _ in range(self.n(3)))
        return {self.pick(['a', 'b', 'c', 'k', '1']): self.any(d + 1) for _ in range(self.n(4))}

    def num(self):
        return self.pick([0, 1, -2, 7, D(0), D(1), D('2.5'), D('-1.5'), D('0.125'), 1.5, True, D('12345.678'), D('1E+3'), 10 ** 20])

    def value(self, spec):
        p = self.pick
        if spec == 'any':
            return self.any()
        if spec == 'cont':
            return p([self.value('list'), self.value('dict'), self.value('tuple'), self.value('nested')])
        if spec == 'str':
            return p(STRS) if self.n(5) else p(HOSTILE)
        if spec == 'hostile':
            return p(HOSTILE)
        if spec == 'numstr':
            return p(NUMSTR)
        if spec == 'num':
            return self.num()
        if spec == 'int':
            return p([0, 1, 2, -1, 5, D(2), D(0), D('1.0'), D(3)])
        if spec == 'idx':
            return p([0, 1, -1, 2, D(0), D(1), D('1.9'), D(-1), 7, -9, D('0.5')])
        if spec == 'slice':
            return slice(p([None, 0, 1, -1]), p([None, 1, 2, -1, 9]), p([None, 1, 2, -1]))
        if spec == 'key':
            return p(KEYS)
        if spec == 'sep':
            return p(SEPS)
        if spec == 'pat':
            return p(PATS) if self.n(6) else p(HOSTILE)
        if spec == 'flags':
            return p(FLAGS)
        if spec == 'bool':
            return p([True, False, 0, 1, None])
        if spec == 'none':
            return None
        if spec == 'op':
            return p(['+=', '-=', '*=', '/=', '%=', '+'])
        if spec == 'list':
            if self.n(40) == 0:
                return list(range(10001 + self.n(3)))      # a host list beyond the cap
            return [self.any(1) for _ in range(self.n(5))]
        if spec == 'tuple':
            return tuple(self.any(1) for _ in range(self.n(4)))
        if spec == 'listnum':
            return [self.num() for _ in range(self.n(5))] if self.n(6) else [D(3), D(1), D(2), D(1)]
        if spec == 'liststr':
            return [p(STRS) for _ in range(self.n(5))]
        if spec == 'nested':
            return [[self.any(2) for _ in range(self.n(3))] for _ in range(1 + self.n(3))] if self.n(2) else \
                {'a': [self.any(2) for _ in range(self.n(3))], 'b': {'c': self.any(2)}}
        if spec == 'dict':
            if self.n(5) == 0:
                # host dicts may be keyed by non-strings
                return {p([1, 2, D(3), True, None, (1, 2), 'a', 2.5]): self.any(1) for _ in range(1 + self.n(4))}
            return {p(['a', 'b', 'c', 'k', '1', 'zz']): self.any(1) for _ in range(self.n(5))}
        if spec == 'dictnum':
            if self.n(6) == 0:
                return {p([1, 2, D(3), 0, 7, 'a']): self.num() for _ in range(1 + self.n(4))}
            return {p(['a', 'b', 'c', 'k', '1', 'zz']): self.num() for _ in range(self.n(5))}
        if spec == 'pairs':
            return [[p(['a', 'b', 1, D(2)]), self.any(2)] for _ in range(self.n(4))]
        if spec == 'fn1':
            return ('lambda', p(LAMBDA1))
        if spec == 'fn2':
            return ('lambda', p(LAMBDA2))
        if spec == 'builtin':
            return ('builtin', p(['len', 'str', 'dict', 'keys', 'map', 'list', 'int', 'sorted', 'get', 'push']))
        raise ValueError(spec)

    def call(self, name, typed_ratio=4, overflow=0, perturb=0):
        """-> list of argument values for builtin `name`; overflow: 1 call in `overflow` gets 1-2 extra trailing arguments"""
        shapes = SHAPES.get(name)
        if shapes and perturb and self.n(perturb) == 0:
            # a well-formed call with one argument swapped for a callable (or any value) and up to two extra arguments
            shape = max(shapes, key=len) if self.n(2) else self.pick(shapes)
            args = [self.value(s) for s in shape]
            if args:
                args[self.n(len(args))] = self.value(self.pick(['fn1', 'fn1', 'fn1', 'fn2', 'builtin', 'any']))
            args += [self.value(self.pick(['flags', 'flags', 'str', 'int', 'any', 'fn1', 'bool'])) for _ in range([0, 1, 1, 2][self.n(4)])]
            if len(args) >= 2 and isinstance(args[0], str) and isinstance(args[1], str) and self.n(2) == 0:
                args[1] = args[0][:1 + self.n(3)]       # equal / overlapping string arguments (a pattern that matches its subject)
            return args
        if shapes and self.n(typed_ratio + 1) != 0:
            args = [self.value(s) for s in self.pick(shapes)]
            if overflow and self.n(overflow) == 0:
                args += [self.value(self.pick(['dict', 'list', 'pairs', 'any', 'nested'])) for _ in range(1 + self.n(2))]
            return args
        return [self.value(self.pick(ANY_SPECS)) for _ in range(self.n(7))]


def is_marker(v):
    return isinstance(v, tuple) and len(v) == 2 and v[0] in ('lambda', 'builtin') and isinstance(v[1], str)
