"""atheris fuzz target for C16(a).  python -m sqv.fuzz_c16 <artifact_dir> <corpus_dir> [libFuzzer flags]

The semantic oracle (reference lexer/parser classification) runs inside the target.  A finding is written to
<artifact_dir>/finding-<n>.json; the target raises only for the first finding of each signature that is not a known
finding, so one shallow defect cannot end every campaign.  Statistics are flushed to <artifact_dir>/stats.json.
"""
import json
import os
import sys


def decode(data):
    return data.decode('utf-8', 'replace')


def main():
    art = sys.argv[1]
    argv = [sys.argv[0]] + sys.argv[2:]
    import atheris
    with atheris.instrument_imports(include=['smartquery']):
        import smartquery  # noqa
        from smartquery import SqParser  # noqa
    from sqv import core
    from sqv.props import c16
    c16._BYSTANDER['want'] = os.environ.get('SQV_C16_BYSTANDER') == '1'
    known = [k.signature for k in core.load_known()[0] if k.prop == 'C16']
    state = {'execs': 0, 'nontrivial': 0, 'hist': {}, 'seen': set(), 'findings': 0}

    class St:
        def add(self, key, n=1):
            state['hist'][key] = state['hist'].get(key, 0) + n

    st = St()

    def flush():
        with open(os.path.join(art, 'stats.json.tmp'), 'w') as f:
            json.dump({'execs': state['execs'], 'nontrivial': state['nontrivial'], 'hist': state['hist']}, f)
        os.replace(os.path.join(art, 'stats.json.tmp'), os.path.join(art, 'stats.json'))

    def one(data):
        text = decode(data)
        state['execs'] += 1
        fails, info = c16.judge_text(text, None, st)
        if info['rejected'] and info['tokens'] >= 3:
            state['nontrivial'] += 1
        if state['execs'] % 5000 == 0:
            flush()
        new = [f for f in fails if f.signature not in state['seen'] and not any(core.sig_matches(p, f.signature) for p in known)]
        for f in fails:
            state['seen'].add(f.signature)
        if new:
            state['findings'] += 1
            with open(os.path.join(art, f'finding-{state["findings"]}.json'), 'w') as fh:
                json.dump({'text': text, 'signatures': [f.signature for f in new]}, fh)
            flush()
            if state['findings'] >= 8:
                raise RuntimeError('sqv: finding ' + new[0].signature)

    flush()
    atheris.Setup(argv, one)
    try:
        atheris.Fuzz()
    finally:
        flush()


if __name__ == '__main__':
    main()
