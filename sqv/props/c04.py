"""C04 - arithmetic stays in bounded-precision decimals; numbers cannot blow up.

Cases are chains of single-statement evals on one persistent names mapping, so the operands of every step are known
before it runs and its result right after; the chain stops at the first breach.  Each case runs in a helper process
under a CPU-time cap (a helper lost to the cap is 'inconclusive', never a violation).
"""
import decimal
import math
from decimal import Decimal as D

from hypothesis import strategies as hst

from sqv import core, hyp
from sqv.core import Failure, Stats
from sqv.pool import Child

ID = 'C04'
LEVEL = 'exploration'
RULE = ('Hypothesis chains (1-30 steps, each one eval of a single statement on a persistent names mapping) over operand '
        'pairs of every host-suppliable numeric type: bool, int (up to 1001 digits), float (inf, nan, 1e300, denormal), '
        'Decimal (28+-digit coefficients, exponents to +-999999, NaN/Inf) and str/list operands; routes: a op b for '
        '+ - * / **, x op= b, c[k] op= b, d[k] op= b, int/float/round/floor/ceil/abs/sum/min/max, squaring and *= chains, '
        'failing steps (sum of a mixed list) after which the chain continues; 1 case in 10 is a closed program whose '
        'operands come from len/index_of/enumerate/sum/reduce (Python ints made by builtins), squared up to 9 times, '
        'evaluated with names omitted / None / {} and ast_names omitted / None / {}; 1 case in 25 calls every table entry '
        'that is missing from the frozen shape tables (a builtin added later) with int / list arguments. Oracle per step: (1) * ** *= on numbers give '
        'a Decimal with <= 28 coefficient digits or raise ArithmeticError/ParserError, and never a str/list with a '
        'non-number operand; (2) every other numeric result has digits <= max(28, 1 + widest argument) (float results are '
        'fixed-size and exempt; float arguments count by their exact expansion); float() returns a number. Non-trivial: an '
        'operand or result has > 28 digits or |exponent| > 28, or a non-Decimal host type is involved; distinct by chain.')
ASSUMPTIONS = ['known finding D4: int/round/floor/ceil of a Decimal with a positive exponent expand it; the generator keeps '
               'such arguments at adjusted exponent < 28 (counted as excluded) and fixed witnesses print the KNOWN-FINDING line',
               'sum over at most 9 elements (the "one more digit" allowance is per operation)',
               'a helper killed by the CPU cap is inconclusive']

_parser = None
LOG10_2 = math.log10(2)


def parser():
    """a parser WITH a parse cache: the same source text is evaluated again and again with operands of other types"""
    global _parser
    if _parser is None or len(_parser.parse_cache) > 2000:
        from smartquery import SqParser
        _parser = SqParser(parse_cache={})
    return _parser


def is_num(v):
    return isinstance(v, (D, int, float))


def digits_result(v):
    """a lower bound on the number of significant digits of a result (cannot over-count)"""
    if isinstance(v, bool):
        return 1
    if isinstance(v, D):
        return len(v.as_tuple().digits) if v.is_finite() else 0
    if isinstance(v, int):
        bl = abs(v).bit_length()
        if bl < 2000:
            return len(str(abs(v)))
        return int((bl - 1) * LOG10_2) + 1
    if isinstance(v, float):
        return 0        # fixed-size binary number
    return 0


def digits_arg(v):
    """an upper bound on the number of significant digits an argument denotes (cannot under-allow)"""
    if isinstance(v, bool):
        return 1
    if isinstance(v, D):
        return len(v.as_tuple().digits) if v.is_finite() else 0
    if isinstance(v, int):
        bl = abs(v).bit_length()
        if bl < 2000:
            return len(str(abs(v)))
        return int(bl * LOG10_2) + 2
    if isinstance(v, float):
        if v != v or v in (float('inf'), float('-inf')):
            return 0
        return len(D(v).as_tuple().digits)
    if isinstance(v, str):
        return sum(ch.isdigit() for ch in v)
    if isinstance(v, (list, tuple)):
        return max([digits_arg(x) for x in v] or [0])
    return 0


def tname(v):
    if isinstance(v, bool):
        return 'bool'
    if isinstance(v, D):
        return 'Decimal'
    return type(v).__name__


def interesting(v):
    if isinstance(v, D):
        return (not v.is_finite()) or len(v.as_tuple().digits) > 28 or abs(v.adjusted()) > 28
    if isinstance(v, (bool, int, float)):
        return True
    return False


def select(names, sel):
    if sel == 'c0':
        return names['c'][0]
    if sel == 'dk':
        return names['d']['k']
    return names[sel]


def reset_context():
    decimal.setcontext(decimal.Context(prec=28, rounding=decimal.ROUND_HALF_EVEN, Emin=-999999, Emax=999999, capitals=1,
                                       clamp=0, flags=[], traps=[decimal.InvalidOperation, decimal.DivisionByZero,
                                                                 decimal.Overflow]))


INT_SOURCES = ['len("{w}")', 'len([{l}])', 'index_of([{l}], 0)', 'enumerate([{l}])[0][0]', 'enumerate([{l}, 5])[1][0]', 'len({{"a": 1, "b": 2, "c": 3}})',
               'index_of("{w}", "b")', 'len(keys({{"p": 1, "q": 2}}))', 'sum([len("{w}"), len("ab")])', 'max(len("{w}"), 2)', 'int(len("{w}"))',
               'abs(len("{w}"))', '{i}', 'True', 'len("{w}") + len("{w}")', 'reduce([len("{w}"), len("abc")], (p, q) => p + q)']
CLOSED_FORMS = [('x = {A}\n{SQ}x', 'x = x * x\n'), ('x = {A}\n{SQ}x', 'x *= x\n'), ('x = {A}\n{SQ}x', 'x = x ** 2\n'), ('x = {A}\n{SQ}x', 'x **= 2\n'),
                ('{A} * {B}', ''), ('{A} ** {B}', ''), ('{A} ** ({B} * {B} * {A})', ''), ('[{A}, {B}] | map(v => v * v)', ''),
                ('y = [{A}, {B}]\n{SQ}y[0]', 'y[0] *= y[1]\n'), ('d = {{"k": {A}}}\n{SQ}d["k"]', 'd["k"] *= d["k"]\n'),
                ('x = {A}\ny = {B}\n{SQ}x * y', 'x = x * y\ny = y * x\n'), ('f = v => v * v\n{SQ}f({A})', 'f = (v => f(v)) if False else f\n'),
                ('x = {A}\n{SQ}x', 'x = x * {B}\n'), ('reduce([{A}, {B}, {A}, {B}, {A}], (p, q) => p * q) ** {B}', '')]
CALL_STYLES = ['omitted', 'none', 'kw-none', 'empty', 'ast-none', 'ast-empty']


def short(x):
    if isinstance(x, int) and not isinstance(x, bool) and abs(x).bit_length() > 2000:
        return f'an int of {abs(x).bit_length()} bits'
    return repr(x)[:80]


def run_closed(case):
    """a program that spells out everything itself, evaluated the way hosts call eval() when they have nothing to bind"""
    from smartquery import ParserError
    reset_context()
    src, style = case['src'], case['style']
    p = parser()
    fails = []
    info = {'steps': 1, 'interesting': False, 'matrix': {'closed:' + style: 1}}
    try:
        if style == 'omitted':
            r = p.eval(src, max_ops_evaluated=10 ** 4)
        elif style == 'none':
            r = p.eval(src, None, max_ops_evaluated=10 ** 4)
        elif style == 'kw-none':
            r = p.eval(src, names=None, ast_names=None, max_ops_evaluated=10 ** 4)
        elif style == 'empty':
            r = p.eval(src, {}, max_ops_evaluated=10 ** 4)
        elif style == 'ast-none':
            r = p.eval(src, {}, ast_names=None, max_ops_evaluated=10 ** 4)
        else:
            r = p.eval(src, None, ast_names={}, max_ops_evaluated=10 ** 4)
    except (ArithmeticError, ParserError):
        return fails, info
    except Exception as e:  # noqa
        fails.append(Failure(f'closed:mul-error:{type(e).__name__}', f'{src!r} (names {style}): raised {type(e).__name__}: {e}'[:600], case))
        return fails, info
    for x in (r if isinstance(r, list) else [r]):
        if not (isinstance(x, D) and digits_result(x) <= 28):
            fails.append(Failure(f'closed:not-decimal28:{tname(x)}', f'{src!r} (names {style}): the product/power is {short(x)} '
                                                                     f'({tname(x)}, >= {digits_result(x) if is_num(x) else "?"} digits), not a 28-digit decimal', case))
            break
        if digits_result(x) > 14:
            info['interesting'] = True
    return fails, info


def run_new_builtins(case):
    """table entries that did not exist when the shape tables were frozen: a new builtin that returns numbers for numeric
    arguments is a numeric builtin, and is held to the general digit bound (one extra digit per element of a list argument)"""
    import smartquery.functions as Fn
    from sqv.gen import shapes
    reset_context()
    a, b = core.dec(case['a']), core.dec(case['b'])
    lst = core.dec(case.get('l', [])) or [a, b]
    fails = []
    info = {'steps': 0, 'interesting': False, 'matrix': {}}
    new = sorted(set(Fn.FUNCTIONS) - set(shapes.SHAPES))
    p = parser()
    for name in new:
        for src, args in ((f'{name}(l)', lst), (f'{name}(a, b)', [a, b]), (f'{name}(a)', [a]), (f'{name}([a, a, a, a])', [a] * 4), (f'l | {name}', lst),
                          (f'{name}([a, a], b)', [a, a, b]), (f'x = {name}([a, a])\nx = {name}([x, x])\nx = {name}([x, x])\nx', [a] * 8)):
            info['steps'] += 1
            try:
                r = p.eval(src, {'a': a, 'b': b, 'l': list(lst)}, max_ops_evaluated=10 ** 4)
            except Exception:  # noqa
                continue
            info['matrix'][f'new-builtin:{name}'] = info['matrix'].get(f'new-builtin:{name}', 0) + 1
            if not all(is_num(x) for x in args):
                if isinstance(r, (str, list)) and any(isinstance(x, (str, list)) and len(x) > 0 and len(r) >= 2 * len(x) and r == x * (len(r) // len(x)) for x in args):
                    fails.append(Failure(f'new-builtin:repeat:{name}', f'{src} with a={short(a)} b={short(b)} l={[short(x) for x in lst]}: '
                                                                       f'a {tname(r)} argument came back repeated: {repr(r)[:80]}', case))
                    break
                continue
            for x in (r if isinstance(r, list) else [r]):
                if is_num(x) and not isinstance(x, float):
                    allowed = max(28, len(args) + max([digits_arg(v) for v in args] or [0]))
                    if digits_result(x) > allowed:
                        info['interesting'] = True
                        fails.append(Failure(f'new-builtin:wide:{name}', f'{src} with a={short(a)} b={short(b)} l={[short(v) for v in lst]}: '
                                                                         f'result has >= {digits_result(x)} significant digits, allowed {allowed}', case))
                        break
            if fails:
                break
        if fails:
            break
    return fails, info


def run_chain(case):
    """executed in the helper: -> (failures, info)"""
    from smartquery import ParserError
    if case.get('closed'):
        return run_closed(case)
    if case.get('new_builtins'):
        return run_new_builtins(case)
    reset_context()
    a, b = core.dec(case['a']), core.dec(case['b'])
    names = {'a': a, 'b': b, 'c': [a], 'd': {'k': a}, 'l': core.dec(case.get('l', [])) or [a, b],
             'bad': [1, 2, 'three'], 'bad2': [D(1), 1.5]}
    fails = []
    info = {'steps': 0, 'interesting': interesting(a) or interesting(b), 'matrix': {}}
    p = parser()
    for step in case['steps']:
        src, kind, op, argsel, out = step['src'], step['kind'], step['op'], step['args'], step['out']
        if 'e' in step:
            names['e'] = core.dec(step['e'])        # a host-supplied exponent for this step
        args = [select(names, s) for s in argsel]
        exc = None
        ret = None
        try:
            ret = p.eval(src, names, max_ops_evaluated=10 ** 4)
        except Exception as e:  # noqa
            exc = e
        info['steps'] += 1
        if kind == 'none':
            continue
        r = ret if out == 'ret' else select(names, out)
        types = ','.join(tname(x) for x in args)
        key = f'{op}({types})'
        info['matrix'][key] = info['matrix'].get(key, 0) + 1
        if interesting(r) and exc is None:
            info['interesting'] = True

        def bad(sig, msg):
            fails.append(Failure(sig, f'step {src!r} with operands {[repr(x)[:60] for x in args]}: {msg}'[:900], case))

        flat = []
        for sel, x in zip(argsel, args):
            flat.extend(x if sel == 'l' and isinstance(x, (list, tuple)) else [x])
        if kind in ('mul', 'pow'):
            if all(is_num(x) for x in flat):
                if exc is not None:
                    if not isinstance(exc, (ArithmeticError, ParserError)):
                        bad(f'mul-error:{op}:{type(exc).__name__}', f'raised {type(exc).__name__}: {exc}')
                elif not (isinstance(r, D) and digits_result(r) <= 28):
                    bad(f'not-decimal28:{op}({types})', f'result {repr(r)[:80]} ({tname(r)}, >= {digits_result(r)} digits) is not a 28-digit decimal')
            elif exc is None and isinstance(r, (str, list)) and not isinstance(r, type(None)):
                before = args[0]
                if not (type(before) is type(r) and before == r):
                    bad(f'repeat:{op}({types})', f'a {tname(r)} came out of a multiplication: {repr(r)[:80]}')
        elif kind == 'mapmul':
            # one multiplication node evaluated once per element: each product is a 28-digit decimal, or the call fails
            if exc is None and isinstance(r, list):
                for x in r:
                    if not (isinstance(x, D) and digits_result(x) <= 28):
                        bad(f'not-decimal28:{op}(element of a mapped list)', f'an element of the result is {repr(x)[:80]} ({tname(x)}), not a 28-digit decimal')
                        break
            elif exc is not None and all(is_num(x) for x in flat) and not isinstance(exc, (ArithmeticError, ParserError)):
                bad(f'mul-error:{op}:{type(exc).__name__}', f'raised {type(exc).__name__}: {exc}')
        elif kind == 'float':
            if exc is None and not is_num(r):
                bad(f'float-not-number({types})', f'float() returned {r!r}')
        elif kind == 'num':
            if exc is None and is_num(r):
                allowed = max(28, 1 + max([digits_arg(x) for x in flat if is_num(x) or isinstance(x, str)] or [0]))
                got = digits_result(r)
                if got > allowed:
                    tag = ''
                    if op in ('int', 'round', 'floor', 'ceil', 'round2') and isinstance(args[0], D) and args[0].is_finite() \
                            and args[0].as_tuple().exponent > 0:
                        tag = 'exponent>0:'
                    bad(f'wide:{tag}{op}({types})', f'result has >= {got} significant digits, allowed {allowed}')
        if fails:
            break
    return fails, info


def run_case(case):
    child = Child(run_chain)
    try:
        res = child.call(case, cpu_limit=20.0)
    finally:
        child.close()
    if res[0] == 'ok':
        return res[1][0]
    if res[0] == 'exc':
        raise core.HarnessError(res[1] + '\n' + res[2])
    return []


# ------------------------------------------------------------------------------------------------ generation
INTS = [0, 1, -1, 2, 3, 7, 10, 12345, -99999, 10 ** 30 + 7, -(10 ** 50), 3 ** 200, 10 ** 1000 + 1, 2 ** 64, 999999999999]
FLOATS = [0.0, 1.5, -2.25, 1e300, 1e-300, float('inf'), float('nan'), 0.1, 3.0, 5e-324, 2.0, 1e22]
DECS = [D(0), D(1), D(-1), D('2.5'), D('0.1'), D('1E+999999'), D('1E-999999'), D('9' * 28), D('9' * 40), D('1.' + '3' * 40),
        D('-7E+50'), D('1E+30'), D('123456789E+99990'), D('NaN'), D('Infinity'), D(2), D(3), D(20000), D(10), D('0.5'),
        D('1E+3'), D('12E+20'), D('-0'), D('1.0000001'), D('99999999999999999999999999.99'), D(100), D(1000)]
NONNUM = ['ab', '', [1, 2], [], 'x' * 50]
SMALL_EXP = [D(0), D(1), D(2), D(3), D('0.5'), D(-1), D(10), 2, 3, D('2.0'), True, 2.0, D(100)]


def big_exponent(v):
    return isinstance(v, D) and v.is_finite() and v.as_tuple().exponent > 0 and v.adjusted() >= 28


@hst.composite
def cases(draw):
    n = lambda k: draw(hst.integers(0, k - 1))  # noqa
    pick = lambda xs: xs[n(len(xs))]  # noqa

    def num():
        r = n(20)
        if r < 3:
            return pick([True, False])
        if r < 8:
            return pick(INTS)
        if r < 11:
            return pick(FLOATS)
        return pick(DECS)

    if n(10) == 0:
        fill = lambda t: t.format(w='ab' * (1 + n(40)) + 'c' * n(3), l=', '.join(str(v) for v in range(1 + n(12))), i=n(2))  # noqa
        form, sq = pick(CLOSED_FORMS)
        src = form.replace('{SQ}', sq * (1 + n(9))).replace('{A}', fill(pick(INT_SOURCES))).replace('{B}', fill(pick(INT_SOURCES)))
        src = src.replace('{{', '{').replace('}}', '}')
        return {'closed': True, 'src': src, 'style': pick(CALL_STYLES), 'steps': [{'src': src}], 'a': None, 'b': None}
    a = num() if n(12) else pick(NONNUM)
    b = num() if n(15) else pick(NONNUM)
    excluded = 0
    steps = []
    k = 1 + (n(30) if n(3) == 0 else n(4))
    chainy = n(3) == 0
    bigexp = big_exponent(a) or big_exponent(b)
    for _ in range(k):
        route = pick(['bin', 'short', 'setop', 'dictop', 'b1', 'b2', 'chain', 'chain', 'fail'] if chainy else
                     ['bin', 'bin', 'short', 'setop', 'dictop', 'b1', 'b1', 'b2', 'chain', 'fail'])
        if route == 'bin':
            op = pick(['+', '-', '*', '/', '**', '*', '**'])
            kind = {'*': 'mul', '**': 'pow'}.get(op, 'num')
            if op == '**' and n(3):
                steps.append({'src': f'a ** e', 'kind': 'pow', 'op': '**', 'args': ['a', 'e'], 'out': 'ret', 'e': core.enc(pick(SMALL_EXP))})
                continue
            form = pick(['a {op} b', 'b {op} a', 'a {op} a', 'a = a {op} b', 'c[0] {op} a'])
            src = form.format(op=op)
            args = {'a {op} b': ['a', 'b'], 'b {op} a': ['b', 'a'], 'a {op} a': ['a', 'a'], 'a = a {op} b': ['a', 'b'], 'c[0] {op} a': ['c0', 'a']}[form]
            steps.append({'src': src, 'kind': kind, 'op': op, 'args': args, 'out': 'a' if form.startswith('a =') else 'ret'})
        elif route in ('short', 'setop', 'dictop'):
            op = pick(['+=', '-=', '*=', '/=', '*=', '**='])
            kind = 'mul' if op == '*=' else ('pow' if op == '**=' else 'num')
            tgt, sel = {'short': ('a', 'a'), 'setop': ('c[0]', 'c0'), 'dictop': ('d["k"]', 'dk')}[route]
            rhs = pick(['b', 'a', tgt]) if route != 'short' else pick(['b', 'a'])
            rsel = {'b': 'b', 'a': 'a', 'c[0]': 'c0', 'd["k"]': 'dk'}[rhs]
            steps.append({'src': f'{tgt} {op} {rhs}', 'kind': kind, 'op': op, 'args': [sel, rsel], 'out': sel})
        elif route == 'b1':
            op = pick(['int', 'float', 'round', 'floor', 'ceil', 'abs', 'sum', 'min', 'max'])
            if op in ('int', 'round', 'floor', 'ceil') and (bigexp or chainy):
                excluded += 1       # D4 (known): positive-exponent decimals are expanded
                continue
            if op in ('sum', 'min', 'max'):
                steps.append({'src': f'{op}(l)', 'kind': 'num', 'op': op, 'args': ['l'], 'out': 'ret'})
            else:
                tgt = pick(['a', 'b'])
                form = pick(['{op}({t})', 'a = {op}({t})'])
                steps.append({'src': form.format(op=op, t=tgt), 'kind': 'float' if op == 'float' else 'num', 'op': op,
                              'args': [tgt], 'out': 'a' if form.startswith('a =') else 'ret'})
        elif route == 'b2':
            op = pick(['round2', 'min2', 'max2'])
            if op == 'round2' and (bigexp or chainy):
                excluded += 1
                continue
            src = {'round2': 'round(a, 2)', 'min2': 'min(a, b)', 'max2': 'max(a, b)'}[op]
            steps.append({'src': src, 'kind': 'num', 'op': op, 'args': ['a'] if op == 'round2' else ['a', 'b'], 'out': 'ret'})
        elif route == 'chain':
            src, kind, op, args, out = pick([
                ('a *= a', 'mul', '*=', ['a', 'a'], 'a'), ('a = a * a', 'mul', '*', ['a', 'a'], 'a'),
                ('a = a ** 2', 'pow', '**', ['a'], 'a'), ('a += a', 'num', '+=', ['a', 'a'], 'a'),
                ('c[0] *= c[0]', 'mul', '*=', ['c0', 'c0'], 'c0'), ('d["k"] *= d["k"]', 'mul', '*=', ['dk', 'dk'], 'dk'),
                ('a = a * b', 'mul', '*', ['a', 'b'], 'a'), ('a = (1 / 3) * a', 'mul', '*', ['a'], 'a'),
                ('a = 2 ** 0.5 * a', 'mul', '*', ['a'], 'a'), ('b = a - b', 'num', '-', ['a', 'b'], 'b'),
                ('c[0] += a', 'num', '+=', ['c0', 'a'], 'c0'), ('a = abs(a) + 1', 'num', '+', ['a'], 'a'),
                ('a = a / 3', 'num', '/', ['a'], 'a'), ('a = -a', 'num', 'neg', ['a'], 'a'),
                ('map(l, v => v * v)', 'mapmul', '*', ['l'], 'ret'), ('map(l, v => v * b)', 'mapmul', '*', ['l', 'b'], 'ret'),
                ('map(l, v => v ** 2)', 'mapmul', '**', ['l'], 'ret'), ('map([a, b, a], v => v * a)', 'mapmul', '*', ['a', 'b'], 'ret'),
            ])
            steps.append({'src': src, 'kind': kind, 'op': op, 'args': args, 'out': out})
        else:
            steps.append({'src': pick(['sum(bad)', 'sum(bad2)', 'a + "x"', 'int("zz")', 'undefined_name', '1 / 0']), 'kind': 'none',
                          'op': 'fail', 'args': [], 'out': 'ret'})
    lst = None
    if n(3) == 0:
        lst = [num() for _ in range(1 + n(8))]
    if n(25) == 0:
        nn = ['ab', [1, 2]] if n(4) == 0 else []
        return {'new_builtins': True, 'a': core.enc(pick(INTS + [True, D(3), D('9' * 28)])), 'b': core.enc(pick(INTS + [2, 3])),
                'l': core.enc(nn + [pick(INTS) for _ in range(2 + n(6))]), 'steps': [{'src': 'every table entry missing from the frozen shape tables'}]}
    return {'a': core.enc(a), 'b': core.enc(b), 'l': core.enc(lst) if lst else [], 'steps': steps, 'excluded': excluded}


def jobs(tier, seed):
    per = 600 if tier == 'quick' else 40000
    return [(core.derive_seed(seed, 'c04', i), per) for i in range(16)]


def run_job(job):
    seed, n = job
    st = Stats()
    child = Child(run_chain)
    matrix = {}

    def check(case):
        res = child.call(case, cpu_limit=8.0)
        st.excluded['D4:int/round/floor/ceil-of-positive-exponent-decimal'] += case.get('excluded', 0)
        if res[0] == 'died':
            st.inconclusive += 1
            return hyp.Result(discard=True)
        if res[0] == 'exc':
            raise core.HarnessError(res[1] + '\n' + res[2])
        fails, info = res[1]
        for k, v in info['matrix'].items():
            matrix[k] = matrix.get(k, 0) + v
        st.add('steps', info['steps'])
        return hyp.Result(fails, info['interesting'] and bool(case['steps']),
                          ['closed-program:names-' + case['style']] if case.get('closed') else (['new-builtins-sweep'] if case.get('new_builtins') else ['chain' if len(case['steps']) > 3 else 'short']),
                          key=core.jdump(case),
                          sample={'a': case['a'], 'b': case['b'], 'steps': [s['src'] for s in case['steps']][:12]})

    try:
        hyp.drive(cases(), check, st, seed=seed, max_examples=n, known_sigs=_known_sigs())
    finally:
        child.close()
    st.extra['operator_x_operand_types'] = matrix
    return st


def _known_sigs():
    known, _ = core.load_known()
    return [k.signature for k in known if k.prop == ID]
