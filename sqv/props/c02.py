"""C02 - sandbox confinement: programs only touch plain data and do no I/O.

(a) typed programs; (b) builtin sweep over the LIVE function table with per-builtin argument shapes and a hostile pool,
composed and embedded in several program forms.  Oracle: deep type walk of every node result, the final result and the
final names; audit hook (vetoing) for file / process / network / import / dynamic-code events during eval.
"""
import copy
import os
import resource
import tempfile
import types
from decimal import Decimal

from hypothesis import strategies as hst

from sqv import core, hyp
from sqv.audit import AUDIT, Veto
from sqv.core import Failure, Stats
from sqv.gen import shapes, typed
from sqv.monitor import Monitor
from sqv.spec import unparse

ID = 'C02'
LEVEL = 'exploration'
RULE = ('Hypothesis builtin sweep: every name in the live FUNCTIONS table called with 0-4 arguments drawn from per-builtin '
        'shape tables (4/5) or an untyped hostile pool (1/5): scalars, nested lists/tuples/dicts, lambdas, builtins as '
        'values, attribute-/format-/path-like strings; one argument may itself be another builtin call; embedded in 10 '
        'program forms (store, index, call the result, pipe, map body...); 1 call in 5 is a well-formed call with one argument '
        'swapped for a callable and up to two extra arguments; a fixed corpus (every regex builtin on a catastrophic pattern, all call forms: the timeout path); a probe matrix per drawn builtin and well-formed argument list: a program '
        'lambda at EVERY argument position x 18 tails of optional/extra arguments (flags, counts, None, codec); the shared parser earlier served failing calls that bound host '
        'callables returning modules (fetch9), which later programs try to reach; 1 in 12 evaluated on a fresh worker thread with '
        'the parser built on the main thread. Plus typed programs. Host names hold plain data '
        'only. Oracle: every node result, the final result and final names contain only None/bool/int/float/Decimal/str/'
        'list/tuple/dict/slice, table entries and lambdas created in the run; no flagged audit event during eval. '
        'Non-trivial: some builtin returned normally having received a non-scalar, callable or hostile-string argument; '
        'distinct by source + names.')
ASSUMPTIONS = ['only eval() is in scope (the constructor writing its PLY tables is not "evaluating a program")',
               'lazy imports performed inside third-party/stdlib code for its own use are tallied, not judged',
               'CPython audit events are the observation point for I/O and dynamic code execution']

_parser = None
_setup_done = False


def parser():
    global _parser
    if _parser is None:
        from smartquery import SqParser
        _parser = SqParser()
    return _parser


def host_leak(*a):
    """what a host function of some OTHER call may legitimately return: not plain data"""
    return os


def setup_worker():
    """scratch cwd + small file-size limit (harness self-defence), audit hook, warm-up"""
    global _setup_done
    if _setup_done:
        return
    _setup_done = True
    import smartquery
    d = tempfile.mkdtemp(prefix='sqv-c02-', dir='/tmp')
    os.chdir(d)
    import atexit
    import shutil
    import multiprocessing.util as mpu
    # removed when the worker exits (multiprocessing workers skip atexit, so register a Finalize as well)
    atexit.register(shutil.rmtree, d, True)
    mpu.Finalize(None, shutil.rmtree, args=(d, True), exitpriority=1)
    try:
        resource.setrlimit(resource.RLIMIT_FSIZE, (1 << 20, 1 << 20))
    except (ValueError, OSError):
        pass
    p = parser()
    for src in ['match("a1", "\\d", "i")', 'round(2.5) + floor(1.5) + int("3")', 'sorted([2, 1]) | map(v => v * 2) | join(",")',
                'x = {"a": [1]}; x["a"] += [2]; pretty(x)', 'match_all("ab", "(a)(b)")', 'match_groups("ab", "(?i)(A)")']:
        try:
            p.eval(src, {})
        except Exception:  # noqa
            pass
    # earlier, unrelated calls of the same host on the same parser bound callables that hand out non-plain objects; those calls
    # failed in various ways.  Nothing of them may be reachable from later calls that bind plain data only.
    for src in ('fetch9(', 'fetch9 $', 'fetch9(1) + undefined_zz', 'x = fetch9\ny = (', 'fetch9(1)[0]', 'f = v => fetch9(v)\nf(', '[1, 2] | map(v => fetch9(v) + nofn9(v))'):
        try:
            p.eval(src, {'fetch9': host_leak, 'leak9': host_leak}, max_ops_evaluated=30)
        except Exception:  # noqa
            pass
    AUDIT.install(os.path.dirname(smartquery.__file__))
    # second warm-up pass with the hook armed but lenient, then strict mode
    AUDIT.armed = True
    for name in sorted(__import__('smartquery.functions', fromlist=['FUNCTIONS']).FUNCTIONS):
        for src in (f'{name}("ab", "a")', f'{name}([1, 2], v => v)', f'{name}(1.5)', f'{name}({{"a": 1}}, "a", 1)'):
            try:
                p.eval(src, {})
            except BaseException:  # noqa
                pass
    AUDIT.armed = False
    AUDIT.flagged.clear()
    AUDIT.strict = True


PLAIN = (bool, int, float, Decimal, str)


def walk(v, allowed_ids, seen, path, depth=0):
    """-> None or a description of the first non-plain object reachable from v"""
    if v is None or isinstance(v, PLAIN):
        return None
    if id(v) in seen:
        return None
    seen.add(id(v))
    if depth > 200:
        return None
    t = type(v)
    if t is list or t is tuple:
        for x in v:
            r = walk(x, allowed_ids, seen, path + '[]', depth + 1)
            if r:
                return r
        return None
    if t is dict:
        for k, x in v.items():
            r = walk(k, allowed_ids, seen, path + '.key', depth + 1) or walk(x, allowed_ids, seen, path + '{}', depth + 1)
            if r:
                return r
        return None
    if t is slice:
        return (walk(v.start, allowed_ids, seen, path, depth + 1) or walk(v.stop, allowed_ids, seen, path, depth + 1)
                or walk(v.step, allowed_ids, seen, path, depth + 1))
    if id(v) in allowed_ids:
        return None
    return (f'{t.__module__}.{t.__qualname__}', f'{path}: {t.__module__}.{t.__qualname__} {repr(v)[:80]}')


def run_source(src, names, case):
    """-> (failures, info)"""
    import smartquery.functions as Fn
    from smartquery import ParserError
    setup_worker()
    fails = {}
    keep = []
    allowed = {id(f) for f in Fn.FUNCTIONS.values()}
    info = {'ok_builtins': [], 'called': []}
    table = set(Fn.FUNCTIONS)

    def note(kind, detail):
        if kind not in fails:
            fails[kind] = Failure(kind, f'{src!r} with names {names!r}: {detail}'[:1200], case)

    def post_node(node, state, r):
        cname = type(node).__name__
        if cname == 'LambdaOp' and callable(r):
            allowed.add(id(r))
            keep.append(r)
        if cname == 'CallOp':
            nm = getattr(node, 'name', None)
            if nm in table:
                info['ok_builtins'].append(nm)
        bad = walk(r, allowed, set(), cname)
        if bad:
            note('value:' + bad[0], 'node result ' + bad[1])

    mon = Monitor()
    mon.post_node = post_node
    AUDIT.flagged.clear()
    outcome = 'value'
    res = None
    box = {'outcome': 'value', 'res': None}

    def do_eval():
        AUDIT.armed = True
        try:
            box['res'] = parser().eval(src, names, max_ops_evaluated=20000)
        except ParserError:
            box['outcome'] = 'lang'
        except Veto:
            box['outcome'] = 'veto'
        except RecursionError:
            box['outcome'] = 'recursion'
        except Exception as e:  # noqa  any exception is fine for this property
            box['outcome'] = 'other'
        finally:
            AUDIT.armed = False

    with mon.on():
        if case.get('via') == 'thread':
            # the host evaluates on a worker thread with the parser it built on its main thread
            import threading
            th = threading.Thread(target=do_eval)
            th.start()
            th.join()
        else:
            do_eval()
    outcome, res = box['outcome'], box['res']
    for ev, detail in AUDIT.flagged:
        note('audit:' + ev, f'audit event {ev} {detail} during eval')
    AUDIT.flagged.clear()
    if outcome == 'value':
        bad = walk(res, allowed, set(), 'result')
        if bad:
            note('value:' + bad[0], 'returned ' + bad[1])
    bad = walk(names, allowed, set(), 'names')
    if bad:
        note('value:' + bad[0], 'left in names ' + bad[1])
    info['outcome'] = outcome
    return list(fails.values()), info


def cold_start():
    """-> (failures, info): audit a fresh interpreter from its very first eval (sqv/cold_c02.py)"""
    import json
    import subprocess
    import sys
    case = {'cold': True}
    pr = subprocess.run([sys.executable, '-m', 'sqv.cold_c02'], cwd=core.VERIF, capture_output=True, text=True, timeout=300,
                        env=dict(os.environ))
    if pr.returncode != 0:
        raise core.HarnessError(f'cold-start audit failed: {pr.stderr[-1500:]}')
    d = json.loads(pr.stdout)
    fails = {}
    for ev, detail, src in d['flagged']:
        sig = f'audit:{ev}:cold-start'
        if sig not in fails:
            fails[sig] = Failure(sig, f'in a fresh interpreter, evaluating {src!r} raised the audit event {ev} {detail}', case)
    return list(fails.values()), d


def run_case(case):
    if case.get('cold'):
        return cold_start()[0]
    return run_source(case['src'], core.dec(case['names']), case)[0]


# ------------------------------------------------------------------------------------------------ generation
FORMS = ['{c}', 'r = {c}\nr', 'r = {c}\nr[0]', 'str({c})', '[{c}, {c}]', '{c} | str', 'g = {c}\ng(1)',
         'map([1, "a"], v => {c})', 'd = {{"k": {c}}}\nd["k"]', 'r = {c}\nr | map(x => x)', 'x = [{c}]\nx[0] | keys',
         'r = {c}\nr("__class__")', 'r = {c}\nr.startswith("a")']


EXTRA_ARGS = ['cp1251', 'koi8_r', 'utf-16', 'rot13', 'idna', 'base64', 'hex', 'zip', 'unicode_escape', 'punycode', 'mbcs', 'undefined', 'utf_7', 'cp437',
              '/etc/passwd', 'os', 'w', 'rb', 3600, -1, None, True]


def build_call(a, name, names, depth=0):
    """source of one call; plain-data arguments are bound to fresh host names"""
    args = a.call(name, perturb=5)
    if a.n(6) == 0:
        # optional / extra trailing arguments: a builtin must not grow dangerous optional parameters
        args = list(args) + [a.pick(EXTRA_ARGS) for _ in range(1 + a.n(2))]
    parts = []
    interesting = False
    for v in args:
        if shapes.is_marker(v):
            parts.append('(' + v[1] + ')' if v[0] == 'lambda' else v[1])
            interesting = True
        elif depth == 0 and a.n(7) == 0:
            inner_name = a.pick(a.table)
            s, _ = build_call(a, inner_name, names, depth + 1)
            parts.append(s)
            interesting = True
        else:
            k = f'a{len(names)}'
            names[k] = v
            parts.append(k)
            if isinstance(v, (list, tuple, dict)) or (isinstance(v, str) and v in shapes.HOSTILE):
                interesting = True
    return f'{name}({", ".join(parts)})', interesting


UNKNOWN_NAMES = ['fetch9', 'leak9', 'fetch9', 'f', 'x', '__class__', '__iter__', '__getattribute__', '__init__', '__dict__', '__reduce__', 'encode', 'title', 'format', 'zfill',
                 'join', 'keys', 'append', 'copy', 'items', 'count', '__globals__', '__call__', 'real', 'as_tuple', 'to_eng_string', 'clear',
                 'setdefault', 'update', 'sort', 'isdigit', 'splitlines', 'partition', '__len__', '__getitem__9', 'open', 'eval', 'exec',
                 '__import__', 'getattr', 'type', 'vars', 'dir', 'globals', 'iter', 'next', 'zip', 'range', 'print', 'input']
UNKNOWN_FORMS = ['a0.{u}()', 'a0.{u}(a1)', 'a0 | {u}', 'a0 | {u}(a1)', '{u}(a0)', '{u}(a0, a1)', 'r = a0.{u}()\nr', 'map([a0], v => v.{u}())',
                 'x = a0\nx.{u}(a1)\nx', '{u}()', 'a0.{u}().{u2}()']
VALUE_FORMS = ['{b}[a0]', '{b}[a0:a1]', '{b} + a0', 'str({b})', '[{b}][0][a0]', 'a0 in {b}', '-{b}', '{b} == {b}',
               '{{{b}: 1}}', 'd = {{}}\nd[{b}] = 1\nd', 'get({b}, a0)', 'len({b})', '{b} | keys', 'sorted([{b}, {b}])',
               'r = {b}\nr[a0]', '{b} | {b2}', '{b}.{b2}(a0)', 'x = [{b}]\nx[0][a0][a1]', '{b} if a0 else {b2}',
               'pretty({b})', 'pretty([{b}])', 'join([{b}])', '{b} * a0', 'r = {b}\nr += a0\nr', 'map([{b}], {b2})']


@hst.composite
def sweep_cases(draw, table):
    a = shapes.Args(draw)
    a.table = table
    names = {}
    if a.n(9) == 0:
        # a name that is not in the function table, called on every kind of receiver (the sandbox must not fall back to Python attributes)
        names['a0'] = a.value(a.pick(['str', 'hostile', 'any', 'list', 'dict', 'num', 'str']))
        names['a1'] = a.value(a.pick(['str', 'hostile', 'any', 'key']))
        src = a.pick(UNKNOWN_FORMS).format(u=a.pick(UNKNOWN_NAMES), u2=a.pick(UNKNOWN_NAMES))
        return {'src': src, 'names': core.enc(names), 'builtin': 'len', 'interesting': True, 'as_value': True, 'unknown_name': True}
    if a.n(8) == 0:
        # a builtin used as a value: indexed, sliced, compared, stored as key, piped into another builtin ...
        form = a.pick(VALUE_FORMS)
        b = a.pick(table)
        names['a0'] = a.value(a.pick(['key', 'idx', 'hostile', 'any', 'str']))
        names['a1'] = a.value(a.pick(['key', 'idx', 'hostile']))
        return {'src': form.format(b=b, b2=a.pick(table)), 'names': core.enc(names), 'builtin': b, 'interesting': True,
                'as_value': True}
    name = a.pick(table)
    call, interesting = build_call(a, name, names)
    form = a.pick(FORMS) if a.n(3) else '{c}'
    case = {'src': form.format(c=call), 'names': core.enc(names), 'builtin': name, 'interesting': interesting}
    if a.n(12) == 0:
        case['via'] = 'thread'
    return case


PROBE_EXTRAS = [(), ('',), ('i',), (0,), (1,), (-1,), (None,), (-1, ''), (-1, 'i'), (1, ''), (0, 's'), (2, 'm'), ('', ''), ('i', 1), (-1, None),
                (1, 1), ('utf-8',), ('', 'utf-8')]


@hst.composite
def probe_cases(draw, names):
    """for every builtin of this job's slice of the table (each job owns one: no builtin is left to chance)"""
    return [draw(probe_case([n])) for n in names]


@hst.composite
def probe_case(draw, table):
    """one builtin with well-formed arguments; the check then swaps EVERY argument position for a program lambda, with every
    PROBE_EXTRAS tail of optional / extra arguments (a builtin must not hand anything but plain data to a program callback,
    whatever optional parameters it has or grows)"""
    a = shapes.Args(draw)
    name = a.pick([t for t in table if shapes.SHAPES.get(t)])
    shp = shapes.SHAPES[name]
    shape = max(shp, key=len) if a.n(3) else a.pick(shp)
    args = [a.value(x) for x in shape]
    if len(args) >= 2 and isinstance(args[0], str) and isinstance(args[1], str) and a.n(3):
        args[1] = args[0][:1 + a.n(3)] if args[0] else ''
    lam = a.pick(shapes.LAMBDA1 + shapes.LAMBDA2)
    return {'builtin': name, 'args': core.enc(args), 'lam': lam}


def probe_sources(case):
    args = core.dec(case['args'])
    name = case['builtin']
    for pos in range(len(args)):
        for tail in PROBE_EXTRAS:
            names, parts = {}, []
            for i, v in enumerate(list(args) + list(tail)):
                if i == pos:
                    parts.append('(' + case['lam'] + ')')
                elif shapes.is_marker(v):
                    parts.append('(' + v[1] + ')' if v[0] == 'lambda' else v[1])
                else:
                    k = f'a{len(names)}'
                    names[k] = v
                    parts.append(k)
            yield f'{name}({", ".join(parts)})', names


def fixed_cases():
    """cases every run performs whatever the seed: each regex builtin on the catastrophic (subject, pattern) pair that makes it hit
    REGEX_TIMEOUT (the error path of the regex helpers), in every call form, with and without flags"""
    subj, pat = shapes.STRS[0], shapes.PATS[0]
    out = []
    for b in ('match', 'match_groups', 'match_all'):
        for form in ('{b}(a0, a1)', 'a0 | {b}(a1)', 'a0.{b}(a1)', '{b}(a0, a1, a2)', 'r = {b}(a0, a1)\nr', 'map([a0], v => {b}(v, a1))'):
            for fl in ('', 'i'):
                out.append({'src': form.format(b=b), 'names': core.enc({'a0': subj, 'a1': pat, 'a2': fl}), 'builtin': b, 'interesting': True})
    out.append({'src': 'replace(a0, a1, a2)', 'names': core.enc({'a0': subj, 'a1': pat, 'a2': ''}), 'builtin': 'replace', 'interesting': True})
    out.append({'src': 'split(a0, a1)', 'names': core.enc({'a0': subj, 'a1': pat}), 'builtin': 'split', 'interesting': True})
    return out


def jobs(tier, seed):
    per = 1500 if tier == 'quick' else 70000
    js = [('sweep', core.derive_seed(seed, 'c02', i), per) for i in range(15)]
    js += [('probe', core.derive_seed(seed, 'c02p', i), 12 if tier == 'quick' else 400, i) for i in range(8)]
    js.append(('typed', core.derive_seed(seed, 'c02t'), 3000 if tier == 'quick' else 60000))
    js.append(('cold', 0, 0))
    js.append(('fixed', 0, 0))
    return js


def run_job(job):
    kind, seed, n = job[:3]
    st = Stats()
    if kind == 'cold':
        fails, d = cold_start()
        st.add('cold_start_programs', d['programs'])
        st.extra['cold_start_events_tallied'] = d['tally']
        st.case(key='cold-start', nontrivial=False, classes=('cold-start',))
        for f in fails:
            st.fail(f)
        return st
    setup_worker()
    import smartquery.functions as Fn
    table = sorted(Fn.FUNCTIONS)
    if kind == 'fixed':
        for case in fixed_cases():
            fails, info = run_source(case['src'], core.dec(case['names']), case)
            st.case(key=case['src'] + repr(case['names']), nontrivial=True, classes=('fixed:regex-timeout-path', 'outcome:' + info['outcome']))
            for f in fails:
                st.fail(f)
    elif kind == 'sweep':
        calls = {}
        oks = {}

        def check(case):
            names = core.dec(case['names'])
            fails, info = run_source(case['src'], names, case)
            b = case['builtin']
            calls[b] = calls.get(b, 0) + 1
            ok = b in info['ok_builtins']
            if ok:
                oks[b] = oks.get(b, 0) + 1
            if case.get('as_value'):
                return hyp.Result(fails, info['outcome'] == 'value', ['sweep:builtin-as-value', 'outcome:' + info['outcome']],
                                  key=case['src'] + repr(case['names']),
                                  sample={'src': case['src'], 'names': case['names'], 'outcome': info['outcome']})
            return hyp.Result(fails, ok and case['interesting'], ['sweep', 'outcome:' + info['outcome']] + (['host:worker-thread'] if case.get('via') else []),
                              key=case['src'] + repr(case['names']),
                              sample={'src': case['src'], 'names': case['names'], 'outcome': info['outcome']})

        hyp.drive(sweep_cases(table), check, st, seed=seed, max_examples=n)
        st.extra['per_builtin_calls'] = calls
        st.extra['per_builtin_normal_returns'] = oks
    elif kind == 'probe':
        mine = [t for t in table if shapes.SHAPES.get(t)][job[3]::8]

        def check(pcs):
            fails, okc, nsrc = [], 0, 0
            for pc in pcs:
                for src, names in probe_sources(pc):
                    case = {'src': src, 'names': core.enc(names), 'builtin': pc['builtin']}
                    f, info = run_source(src, copy.deepcopy(names), case)
                    fails += f
                    nsrc += 1
                    okc += pc['builtin'] in info['ok_builtins']
            st.add('probe_calls', nsrc)
            st.add('probe_calls_returned_normally', okc)
            return hyp.Result(fails, okc > 0, ['probe:callable-at-every-position'] + ['probe:' + pc['builtin'] for pc in pcs],
                              key=repr([(pc['builtin'], pc['args'], pc['lam']) for pc in pcs]),
                              sample={'probed': [[pc['builtin'], pc['args'], pc['lam']] for pc in pcs][:3], 'calls': nsrc, 'returned_normally': okc})

        hyp.drive(probe_cases(mine), check, st, seed=seed, max_examples=n)
    else:
        def check(c):
            stmts, env, labels = c
            src = '\n'.join(unparse.full_stmt(s) for s in stmts)
            case = {'src': src, 'names': core.enc(env)}
            fails, info = run_source(src, copy.deepcopy(env), case)
            return hyp.Result(fails, bool(info['ok_builtins']) and len(labels) >= 3, ['typed', 'outcome:' + info['outcome']],
                              key=src + repr(case['names']), sample=None)

        hyp.drive(typed.programs(), check, st, seed=seed, max_examples=n)
    st.extra['audit_events_tallied'] = dict(AUDIT.tally)
    return st


def finish(stats, tier):
    import smartquery.functions as Fn
    calls = stats.extra.get('per_builtin_calls', {})
    oks = stats.extra.get('per_builtin_normal_returns', {})
    return {'builtins_in_table': len(Fn.FUNCTIONS),
            'builtins_never_returning_normally': sorted(k for k in Fn.FUNCTIONS if not oks.get(k)),
            'builtins_never_called': sorted(k for k in Fn.FUNCTIONS if not calls.get(k))}
