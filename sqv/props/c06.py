"""C06 - the parser accepts exactly the grammar and groups by the operator table.

Oracle: reference lexer + reference parser (frozen spec, precedence climbing).  Cases:
  (a) exhaustive token-kind strings up to a length bound over a 33-kind representative alphabet,
      plus longer lengths over reduced alphabets (thorough)
  (b) random sentences of the grammar rendered with minimal parentheses
  (c) one-token mutations / truncations of (b)
  (d) operator-pair matrix
"""
import itertools
from decimal import Decimal

from sqv import core, hyp
from sqv.core import Failure, Stats
from sqv.spec import reflex, refparse
from sqv.spec.neutral import neutral, same_tree
from sqv.spec import unparse

ID = 'C06'
LEVEL = 'exploration'
DESIGN_REF = 'DESIGN.md 4/C06'
RULE = ('(a) every token-kind string up to the stated length bound over a 33-kind alphabet with canonical lexemes '
        '(exhaustive; distinct by construction); (b) Hypothesis random sentences of the grammar rendered with minimal '
        'parentheses; (c) one-token insert/delete/replace mutations and truncations of (b); (d) operator-pair matrix. '
        'Random sentences hold literals and %names% that differ only in inner blanks/tabs; each text and up to 8 blank-siblings '
        'are also judged on a parser with a parse cache kept across the job. Oracle = frozen reference lexer+parser: accepted => identical neutral tree, rejected => implementation raises. '
        'Non-trivial: the reference accepts and the tree holds >= 2 operator/suffix nodes, or a mutation of an accepted '
        'sentence that the reference rejects; random/matrix cases only count when longer than the exhaustive bound.')
ASSUMPTIONS = ['the reference parser (sqv/spec/refparse.py) is the reading of the published grammar + operator table; '
               'it was compared with the PLY tables on all 39M token strings of length <= 5',
               'exhaustive claims are over token kinds with canonical lexemes, not over lexeme variation']

LEX = {
    'NAME': 'a', 'NUMBER': '1', 'STRING': '"s"', 'TRUE': 'True', 'NONE': 'None',
    'PLUS': '+', 'MINUS': '-', 'TIMES': '*', 'POWER': '**', 'EQ': '==', 'LT': '<', 'IN': 'in', 'NOT': 'not',
    'AND': 'and', 'OR': 'or', 'IF': 'if', 'ELSE': 'else', 'LAMBDA': '=>', 'ASSIGN': '=', 'SHORT_OP': '+=',
    'DEL': 'del', 'LPAREN': '(', 'RPAREN': ')', 'LBRACKET': '[', 'RBRACKET': ']', 'LBRACE': '{', 'RBRACE': '}',
    'COMMA': ',', 'COLON': ':', 'DOT': '.', 'PIPE': '|', 'NEWLINE': ';', 'FOR': 'for',
}
VAL = {'NAME': 'a', 'NUMBER': Decimal(1), 'STRING': 's', 'SHORT_OP': '+='}
KINDS = list(LEX)
# reduced alphabets for longer strings: together they contain every adjacent operator pair
REDUCED = {
    'ops': ['NAME', 'PLUS', 'MINUS', 'TIMES', 'POWER', 'EQ', 'IN', 'NOT', 'AND', 'OR', 'IF', 'ELSE', 'LAMBDA',
            'DOT', 'PIPE', 'LPAREN', 'RPAREN', 'LBRACKET', 'RBRACKET', 'COLON'],
    'stmts': ['NAME', 'NUMBER', 'ASSIGN', 'SHORT_OP', 'DEL', 'LBRACKET', 'RBRACKET', 'LBRACE', 'RBRACE', 'COMMA',
              'COLON', 'NEWLINE', 'LPAREN', 'RPAREN', 'LAMBDA', 'MINUS', 'NOT', 'IN', 'DOT', 'PIPE'],
}

_OPS_SET = set(REDUCED['ops'])
_parser = None


def parser():
    global _parser
    if _parser is None:
        from smartquery import SqParser
        _parser = SqParser()
    return _parser


def count_ops(t):
    """number of operator / suffix / construct nodes in a neutral tree"""
    if isinstance(t, tuple):
        own = 1 if t and t[0] in ('Bin', 'Un', 'If', 'Lambda', 'Call', 'Dict', 'Assign', 'Short') else 0
        return own + sum(count_ops(x) for x in t[1:])
    if isinstance(t, list):
        return sum(count_ops(x) for x in t)
    return 0


def _label(x):
    if isinstance(x, tuple) and x and isinstance(x[0], str):
        if x[0] in ('Bin', 'Un'):
            return f'{x[0]}:{x[1]}'
        if x[0] == 'Call':
            special = x[1].startswith('__') or x[1] in ('list', 'dict')
            return f'Call:{x[1]}/{len(x[2])}' if special else f'Call/{len(x[2])}'
        if x[0] in ('Val', 'Name'):
            return x[0]
        return f'{x[0]}/{len(x) - 1}'
    if isinstance(x, (tuple, list)):
        return f'seq/{len(x)}'
    return type(x).__name__


def first_diff(a, b):
    """labels of the first (outermost, leftmost) differing nodes, for the signature"""
    la, lb = _label(a), _label(b)
    if la == lb and isinstance(a, (tuple, list)) and isinstance(b, (tuple, list)) and len(a) == len(b):
        for x, y in zip(a, b):
            if not same_tree(x, y):
                if isinstance(x, (tuple, list)) and isinstance(y, (tuple, list)):
                    return first_diff(x, y)
                return f'{la}|{lb}'
    return f'{la}|{lb}'


_cached = None


def cached_parser():
    """one parser with a parse cache per job: texts that differ only in blanks must not share a tree"""
    global _cached
    if _cached is None or len(_cached.parse_cache) > 3000:
        from smartquery import SqParser
        _cached = SqParser(parse_cache={})
    return _cached


def judge(text, toks=None, use=None):
    """-> (failures, ref_accepts, ref_tree, ntoks); toks = reference token list (kind, value) if already known"""
    if toks is None:
        try:
            lexed = reflex.lex(text)
        except reflex.LexError:
            return [], None, None, 0
        toks = [(t.kind, t.value) for t in lexed]
    try:
        ref = refparse.parse(toks)
        rej_at = None
    except refparse.Rej as r:
        ref = None
        rej_at = r.args[0] if r.args else None
    except RecursionError:
        return [], None, None, len(toks)
    try:
        impl = neutral((use or parser()).parse(text))
        impl_exc = None
    except RecursionError:
        return [], None, None, len(toks)
    except Exception as e:  # noqa  any ordinary exception is a rejection here; its class is C16's business
        impl = None
        impl_exc = e
    fails = []
    case = {'text': text}
    if ref is None and impl_exc is None:
        at = toks[rej_at][0] if isinstance(rej_at, int) and rej_at < len(toks) else 'EOF'
        fails.append(Failure(f'accept-invalid:{at}', f'{text!r}: grammar does not derive it, parser returned {impl!r}', case))
    elif ref is not None and impl_exc is not None:
        msg = str(impl_exc)
        at = 'EOF'
        for k, lx in LEX.items():
            if f'Syntax error: {lx} at' in msg:
                at = k
                break
        fails.append(Failure(f'reject-valid:{at}', f'{text!r}: grammar derives {ref!r}, parser raised '
                                                   f'{type(impl_exc).__name__}: {msg[:120]}', case))
    elif ref is not None and not same_tree(ref, impl):
        fails.append(Failure(f'tree:{first_diff(ref, impl)}', f'{text!r}: expected {ref!r} got {impl!r}', case))
    return fails, ref is not None, ref, len(toks)


def run_case(case):
    return judge(case['text'])[0]


# ------------------------------------------------------------------------------------------------ jobs
def jobs(tier, seed):
    js = []
    L = 4 if tier == 'quick' else 5
    for n in range(0, 3):
        js.append(('enum', 'full', n, ()))
    for n in range(3, L + 1):
        for k in KINDS:
            js.append(('enum', 'full', n, (k,)))
    if tier == 'thorough':
        for name in REDUCED:
            for a in REDUCED[name]:
                for b in REDUCED[name]:
                    js.append(('enum', name, 6, (a, b)))
    else:
        for name in REDUCED:
            for a in REDUCED[name]:
                js.append(('enum', name, 5, (a,)))
    js.append(('matrix', L))
    nshard = 16
    per = 1500 if tier == 'quick' else 40000
    for i in range(nshard):
        js.append(('random', core.derive_seed(seed, 'c06', i), per, L))
    return js


def run_job(job):
    if job[0] == 'enum':
        return job_enum(*job[1:])
    if job[0] == 'matrix':
        return job_matrix(job[1])
    return job_random(*job[1:])


def job_enum(alpha, n, prefix):
    st = Stats()
    kinds = KINDS if alpha == 'full' else REDUCED[alpha]
    for rest in itertools.product(kinds, repeat=n - len(prefix)):
        ks = prefix + rest
        text = ' '.join(LEX[k] for k in ks)
        toks = [(k, VAL.get(k)) for k in ks]
        fails, acc, ref, _ = judge(text, toks)
        nt = bool(acc) and count_ops(ref) >= 2
        if alpha == 'stmts' and nt and all(k in _OPS_SET for k in ks):
            nt = False      # already counted under the 'ops' alphabet
        st.case(nontrivial=nt, distinct_by_construction=True,
                classes=(f'enum:{alpha}:len{n}:' + ('accepted' if acc else 'rejected'),),
                sample={'text': text, 'accepted': acc} if nt and st.evaluations % 5003 == 0 else None)
        for f in fails:
            st.fail(f)
    return st


BIN_TOK = ['or', 'and', '==', '!=', '<', '>', '<=', '>=', 'in', 'not in', '+', '-', '*', '/', '**']


def matrix_cases():
    pre = ['', '-', 'not ']
    suf = ['', '.f()', ' | f', ' | f(b)', '[0]', '[1:]']
    for A in BIN_TOK:
        for B in BIN_TOK:
            for p in pre:
                for s in suf:
                    yield f'{p}a {A} {p}b {B} c{s}'
            yield f'a {A} b if c {B} d else e {A} f'
            yield f'x => a {A} b {B} c'
            yield f'a {A} x => b {B} c'
            yield f'a {A} (b {B} c)'
            yield f'(a {A} b) {B} c'
            yield f'f(a {A} b, c {B} d)[a {A} b:c {B} d]'
        for p in pre:
            for s in suf:
                yield f'{p}a{s} {A} {p}b{s}'
                yield f'{p}{p}a{s}{s} {A} b'
        yield f'y = a {A} b; y += a {A} b; z[a {A} b] = a {A} b; del z[a {A} b]'
        yield f'{{a {A} b: c {A} d}}'
    for tgt in ['a[0]', '(a[0])', '((a[0]))', '(a)[0]', 'a[0][1]', '(a[0])[1]', '(a[0][1])', 'f(a)[0]', '(f(a)[0])', '__getitem__(a, 0)', 'a[0:1]', '(a)', 'a.b()[0]',
                '(a.b())[0]', '-a[0]', '(-a)[0]', 'not a[0]', 'a | f[0]', '(a | f)[0]', '[a][0]', '{a: b}[a]', '"s"[0]', '1[0]', 'a[0] if b else c[0]', 'x => x[0]']:
        yield f'del {tgt}'
        yield f'{tgt} = 1'
        yield f'{tgt} += 1'
        yield f'b = {tgt}'
        yield f'del {tgt}; {tgt} = 2'
    for s1 in suf[1:]:
        for s2 in suf[1:]:
            for p in pre:
                yield f'{p}a{s1}{s2}'


def job_matrix(bound):
    st = Stats()
    for text in matrix_cases():
        fails, acc, ref, nt = judge(text)
        st.case(key='m:' + text, nontrivial=bool(acc) and nt > bound and count_ops(ref) >= 2,
                classes=('matrix:' + ('accepted' if acc else 'rejected'),),
                sample={'text': text, 'accepted': acc} if st.evaluations % 501 == 0 else None)
        for f in fails:
            st.fail(f)
    return st


def job_random(seed, n, bound):
    from hypothesis import strategies as hst
    from sqv.gen import sentences
    st = Stats()

    @hst.composite
    def cases(draw):
        prog = draw(sentences.programs(blanks=True))
        g = sentences.G(draw)
        seps = [g.pick(['\n', ';', '\r\n', '\n\n', ' ; ']) for _ in prog]
        mut = None
        if g.n(3) == 0:
            mut = (g.pick(['del', 'ins', 'rep', 'trunc']), g.n(1000), g.pick(KINDS))
        return prog, seps, mut

    def check(c):
        prog, seps, mut = c
        try:
            parts = [unparse.minimal_stmt(s) for s in prog]
        except ValueError as e:
            raise core.HarnessError(f'unparse: {e}')
        text = ''.join(p + s for p, s in zip(parts[:-1], seps)) + parts[-1]
        want = ('Code', [unparse.clean(s) for s in prog])
        toks = reflex.lex(text)
        ref = refparse.parse([(t.kind, t.value) for t in toks])
        if not same_tree(ref, want):
            raise core.HarnessError(f'unparse/refparse self-check failed for {text!r}: {want!r} vs {ref!r}')
        mutated = False
        if mut is not None and toks:
            kind, pos, k = mut
            pos %= len(toks)
            lexemes = [t.text for t in toks]
            if kind == 'del':
                del lexemes[pos]
            elif kind == 'ins':
                lexemes.insert(pos, LEX[k])
            elif kind == 'rep':
                lexemes[pos] = LEX[k]
            else:
                lexemes = lexemes[:pos]
            text = ' '.join(lexemes)
            mutated = True
        fails, acc, reft, nt = judge(text)
        if acc is None:
            return hyp.Result(discard=True)
        sib = 0
        if not fails:
            # the same text and its blank-siblings on a parser with a parse cache (kept across the cases of this job)
            sibs = [text, text.replace('a b', 'a  b'), text.replace('a  b', 'a b'), text.replace('a b', 'a\tb'), text.replace('\t', ' '),
                    text.replace(' ', '  '), text + ' ', ' ' + text, text.replace('  ', ' ')]
            seen = set()
            for t2 in sibs:
                if t2 in seen:
                    continue
                seen.add(t2)
                f2 = judge(t2, use=cached_parser())[0]
                sib += 1
                if f2:
                    fails = [Failure('cached:' + f.signature, 'on a parser with a parse cache, after sibling texts: ' + f.message, f.case) for f in f2]
                    break
        st.add('texts_judged_on_cached_parser', sib)
        nontriv = nt > bound and ((acc and count_ops(reft) >= 2) or (mutated and not acc))
        cls = ['random:' + ('mutated:' if mutated else 'sentence:') + ('accepted' if acc else 'rejected')]
        return hyp.Result(fails, nontriv, cls, key='r:' + text,
                          sample={'text': text, 'accepted': acc, 'mutated': mutated})

    hyp.drive(cases(), check, st, seed=seed, max_examples=n, known_sigs=_known_sigs())
    return st


def _known_sigs():
    known, _ = core.load_known()
    return [k.signature for k in known if k.prop == ID]


def finish(stats, tier):
    L = 4 if tier == 'quick' else 5
    return {'exhaustive': True,
            'exhaustive_bound': f'all token-kind strings of length <= {L} over {len(KINDS)} kinds'
                                + ('; length 6 over two 20-kind reduced alphabets' if tier == 'thorough'
                                   else '; length 5 over two 20-kind reduced alphabets'),
            'exhaustive_note': 'exhaustive refers to part (a); parts (b)-(d) are sampled'}
