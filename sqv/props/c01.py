"""C01 - the op budget is enforced exactly, on every evaluation path.

Relations (no model of the interpreter needed), DESIGN 4/C01:
  1. unbounded run under the monitor: K charges; node entries == charges
  2. every N <= K: at most N-1 charges return; with propagating hosts: ops-limit error (a ParserError) quoting N, exactly
     N node entries, one raising charge, probe log is a prefix, host names == state before the N-th charge
  3. every N > K: identical outcome, names and log
  4. sessions: a lambda stored by an earlier eval is charged to the eval that invokes it; repeating a call is stable
"""
import copy

from hypothesis import strategies as hst

from sqv import core, hyp
from sqv.core import Failure, Stats
from sqv.gen import typed
from sqv.monitor import Monitor
from sqv.spec import unparse
from sqv.values import canon

ID = 'C01'
LEVEL = 'exploration'
RULE = ('Hypothesis programs = typed statements (every operator/statement/builtin) interleaved with probe templates: '
        'lambdas driven by map/filter/reduce/sorted, recursion, host callbacks call()/safe()/sub() (sub runs a nested '
        'eval), statement-bodied lambdas and NoOp through ast_names; each program is run unbounded (K operations) and '
        'then with every budget N in 1..K+2 when K <= 60 (else a boundary set plus drawn values). Sessions: lambdas '
        'defined by earlier evals are invoked by later evals under every budget, and repeated 30 times. Non-trivial: '
        'K >= 5 and a lambda body evaluated through a higher-order builtin or host callback, or a session whose later '
        'eval invokes an earlier eval\'s lambda; distinct by program text + environment. Deep job: runaway recursion '
        '(direct, mutual, through map/reduce/host callback, defined by an earlier eval) and nestings 5..2500 deep under '
        'budgets 60..10^9: an ops-limit error may only be raised by the N-th started operation; non-trivial there = the '
        'interpreter stack was exhausted or the limit hit with N >= 500.')
ASSUMPTIONS = ['prefix/snapshot relations are not asserted when a swallowing host (safe) is on the call path; the bound '
               '"at most N-1 operations take effect" is asserted always']

BIG = 10 ** 9
_parser = None


def parser():
    global _parser
    if _parser is None:
        from smartquery import SqParser
        _parser = SqParser()
    return _parser


# --------------------------------------------------------------------------------------------- execution
def make_hosts(log):
    ctx = {'mon': None}

    def t(i, *rest):
        log.append(repr(i)[:40])
        return i

    def call(f, *a):
        return f(*a)

    def safe(f, *a):
        try:
            return f(*a)
        except Exception:  # noqa  a host that catches what the program raises and lets it continue
            return 'ERR'

    def sub(x):
        # a host callback that itself evaluates a small program (nested eval on the same parser)
        # its operations belong to that other eval call, so the monitor does not observe them
        mon = ctx['mon']
        if mon is not None:
            mon.paused += 1
        try:
            parser().eval('k = 1\nk + 1', {}, max_ops_evaluated=50)
        finally:
            if mon is not None:
                mon.paused -= 1
        return x

    def ctxcall(f, *a):
        # the host runs the program's lambda in a fresh contextvars.Context (what an executor / event loop does)
        import contextvars
        return contextvars.Context().run(f, *a)

    def threadcall(f, *a):
        import threading
        box = {}

        def work():
            try:
                box['r'] = f(*a)
            except BaseException as e:  # noqa
                box['e'] = e
        th = threading.Thread(target=work)
        th.start()
        th.join()
        if 'e' in box:
            raise box['e']
        return box.get('r')

    sub._ctx = ctx
    return {'t': t, 'call': call, 'safe': safe, 'sub': sub, 'ctxcall': ctxcall, 'threadcall': threadcall}


def build_ast_names(spec):
    if not spec:
        return None
    from smartquery.ast_ops import LambdaOp, NameOp, NoOp
    out = {}
    for k, v in spec.items():
        if v == 'NOOP':
            out[k] = NoOp()
        else:
            out[k] = LambdaOp([NameOp('a')], parser().parse(v))
    return out


class Obs:
    pass


def execute(src, names, N, ast_spec=None, snapshots=False):
    """run one eval under the monitor; `names` is used as is (caller copies)"""
    from smartquery import ParserError
    from smartquery.exceptions import OpsExecutionLimitExceededError as OLE
    o = Obs()
    mon = Monitor()
    o.snaps = []
    if snapshots:
        def pre(node, state):
            o.snaps.append(canon_names(names))
        mon.pre_charge = pre
    o.kind, o.value, o.msg, o.exc = 'value', None, '', None
    if 'sub' in names and hasattr(names['sub'], '_ctx'):
        names['sub']._ctx['mon'] = mon
    with mon.on():
        try:
            o.value = canon(parser().eval(src, names, ast_names=build_ast_names(ast_spec), max_ops_evaluated=N))
        except OLE as e:
            o.kind, o.msg, o.exc = 'ops', str(e), e
        except ParserError as e:
            o.kind, o.msg = 'lang', str(e)
        except RecursionError as e:
            o.kind, o.msg = 'recursion', ''
        except Exception as e:  # noqa
            o.kind, o.msg = 'other:' + type(e).__name__, str(e)
    o.ok, o.raised, o.entries, o.kinds = mon.charges_ok, mon.charges_raised, mon.total_entries, dict(mon.entries)
    o.names = canon_names(names)
    return o


def canon_names(names):
    return [(k, canon(v)) for k, v in names.items() if not callable(v) or getattr(v, '__name__', '') == 'f']


def fresh(env, log):
    n = copy.deepcopy(env)
    n.update(make_hosts(log))
    return n


def budgets_for(K, fracs):
    if K <= 60:
        return list(range(1, K + 3))
    bs = {1, 2, 3, K - 1, K, K + 1, K + 2}
    for f in fracs:
        bs.add(1 + (f * K) // 1000)
    return sorted(b for b in bs if b >= 1)


def check_single(src, env, ast_spec, fracs, case, swallow):
    """-> (failures, info)"""
    from smartquery import ParserError
    fails = []
    log0 = []
    names0 = fresh(env, log0)
    U = execute(src, names0, BIG, ast_spec, snapshots=True)
    K = U.ok
    info = {'K': K, 'kinds': U.kinds, 'outcome': U.kind}
    if U.kind == 'recursion':
        info['discard'] = True
        return fails, info

    def bad(sig, msg):
        fails.append(Failure(sig, f'{src!r}: {msg}'[:1200], case))

    if U.kind == 'ops':
        bad('unbounded-run-hits-limit', f'ops-limit error with budget {BIG}: {U.msg}')
        return fails, info
    if U.entries > 3 and U.ok + U.raised == 0:
        raise core.HarnessError('monitor: node evaluations observed but no charge through Op.eval (seam moved?)')
    if U.ok + U.raised != U.entries:
        bad('charge-vs-entries', f'{U.entries} node evaluations but {U.ok}+{U.raised} charges; kinds {U.kinds}')
        return fails, info
    budgets = budgets_for(K, fracs)
    info['budgets'] = len(budgets)
    for N in budgets:
        log = []
        names = fresh(env, log)
        R = execute(src, names, N, ast_spec)
        if R.kind == 'recursion':
            continue
        if N <= K:
            if R.ok > N - 1:
                bad('more-than-N-1-operations-took-effect', f'budget {N}: {R.ok} operations were charged and went on')
                break
            if swallow:
                continue
            if R.kind != 'ops':
                bad('no-ops-limit-error', f'budget {N} <= K={K}: outcome {R.kind} {R.msg or R.value!r}')
                break
            if not isinstance(R.exc, ParserError):
                bad('ops-error-not-ParserError', f'budget {N}: {type(R.exc).__name__}')
                break
            if R.ok != N - 1 or R.raised != 1 or R.entries != N:
                bad('abort-not-at-Nth-operation', f'budget {N}: {R.ok} charges returned, {R.raised} raised, {R.entries} node evaluations')
                break
            if log != log0[:len(log)]:
                bad('effects-not-a-prefix:log', f'budget {N}: probe log {log} is not a prefix of {log0}')
                break
            if R.names != U.snaps[N - 1]:
                bad('effects-not-a-prefix:names', f'budget {N}: names {R.names} but the unbounded run had {U.snaps[N - 1]} before operation {N}')
                break
        else:
            if (R.kind, R.value, R.msg) != (U.kind, U.value, U.msg) or R.names != U.names or log != log0:
                bad('not-monotone', f'budget {N} > K={K}: outcome {(R.kind, R.value, R.msg)} names {R.names} log {log} '
                                    f'vs unbounded {(U.kind, U.value, U.msg)} {U.names} {log0}')
                break
    return fails, info


def check_session(setup, targets, env, fracs, case):
    """setup: sources run unbounded on a shared names mapping; targets: sources invoking the stored lambdas"""
    fails = []
    log0 = []
    base = fresh(env, log0)
    for s in setup:
        S = execute(s, base, BIG)
        if S.kind != 'value':
            return fails, {'discard': True}
    info = {'K': 0, 'targets': len(targets)}

    def bad(sig, msg):
        fails.append(Failure(sig, f'setup {setup!r} then {msg}'[:1200], case))

    def clone():
        n = {k: (v if callable(v) else copy.deepcopy(v)) for k, v in base.items()}
        log = []
        n.update(make_hosts(log))
        return n, log

    for tsrc in targets:
        n0, l0 = clone()
        U = execute(tsrc, n0, BIG)
        if U.kind in ('recursion',):
            continue
        K = U.ok
        info['K'] = max(info['K'], K)
        if U.kind == 'ops':
            bad('session:unbounded-run-hits-limit', f'{tsrc!r} with budget {BIG}: {U.msg}')
            break
        for N in budgets_for(K, fracs):
            n, l = clone()
            R = execute(tsrc, n, N)
            if N <= K:
                if R.ok > N - 1:
                    bad('session:more-than-N-1-operations-took-effect', f'{tsrc!r} budget {N}: {R.ok} operations charged and went on (K={K})')
                    break
                if 'safe(' in tsrc:
                    continue
                if R.kind != 'ops':
                    bad('session:no-ops-limit-error', f'{tsrc!r} budget {N} <= K={K}: outcome {R.kind} {R.msg or R.value!r}')
                    break
                if R.entries != N:
                    bad('session:abort-not-at-Nth-operation', f'{tsrc!r} budget {N}: {R.entries} node evaluations')
                    break
            else:
                if (R.kind, R.value, R.msg) != (U.kind, U.value, U.msg) or R.names != U.names:
                    bad('session:not-monotone', f'{tsrc!r} budget {N} > K={K}: {(R.kind, R.value, R.msg)} vs {(U.kind, U.value, U.msg)}')
                    break
        if fails:
            break
        # the same call, repeated on one mapping, keeps succeeding with budget K+1 (expression-only targets)
        if U.kind == 'value' and U.names == canon_names(base) and '=' not in tsrc.replace('==', '').replace('=>', '').replace('<=', '').replace('>=', '').replace('!=', ''):
            n, l = clone()
            for i in range(30):
                R = execute(tsrc, n, K + 1)
                if (R.kind, R.value) != (U.kind, U.value):
                    bad('session:repeat-unstable', f'{tsrc!r} repeated with budget {K + 1}: call {i + 1} gave {R.kind} {R.msg or R.value!r}, first gave {U.value!r}')
                    break
            if fails:
                break
    return fails, info


# ------------------------------------------------------------------------------- deep / runaway programs
DEEP_RUNAWAY = [
    'f = n => f(n + 1)\nf(0)',
    'f = n => [n] | map(k => f(k + 1))\nf(0)',
    'f = n => call(f, n + 1)\nf(0)',
    'f = n => t(n) + f(n + 1)\nf(0)',
    'f = n => reduce([n, 1], (a, b) => f(a + b))\nf(0)',
    'f = n => g(n + 1)\ng = n => f(n + 1)\nf(0)',
    'xs | map(v => fdeep(v))',
]
DEEP_NEST = [('-(', '1', ')'), ('[', 't(1)', ']'), ('abs(', '1', ')'), ('(not ', 'x0', ')'), ('{"k": ', '1', '}'),
             ('call(v => v, ', '1', ')'), ('(1 if ', '1', ' else 0)'), ('[0, ', '1', '][1]'), ('1 + (', '1', ')')]


def deep_source(case):
    if case['shape'] == 'runaway':
        return DEEP_RUNAWAY[case['i'] % len(DEEP_RUNAWAY)]
    o, m, c = DEEP_NEST[case['i'] % len(DEEP_NEST)]
    return o * case['d'] + m + c * case['d']


def check_deep(case):
    """large budgets with programs that exhaust the interpreter's stack: whatever else happens, the ops-limit error
    may only be raised by the N-th operation, and never more than N-1 operations may be charged and go on"""
    from smartquery.exceptions import OpsExecutionLimitExceededError as OLE
    src = deep_source(case)
    fails = []
    info = {'K': 0, 'deep': False}
    for N in case['budgets']:
        log = []
        names = {'x0': True, 'xs': [1, 2]}
        names.update(make_hosts(log))
        if case.get('session'):
            try:
                parser().eval('fdeep = n => fdeep(n + 1)', names, max_ops_evaluated=50)
            except Exception:  # noqa
                return fails, {'discard': True}
        mon = Monitor()
        kind = 'value'
        with mon.on():
            try:
                parser().eval(src, names, max_ops_evaluated=N)
            except OLE:
                kind = 'ops'
            except RecursionError:
                kind = 'recursion'
            except Exception as e:  # noqa
                kind = 'other:' + type(e).__name__
        info['K'] = max(info['K'], mon.total_entries)
        if kind == 'recursion' or (kind == 'ops' and N >= 500):
            info['deep'] = True
        if mon.charges_ok > N - 1:
            fails.append(Failure('deep:more-than-N-1-operations-took-effect',
                                 f'{src[:80]!r}.. budget {N}: {mon.charges_ok} operations were charged and went on', case))
            break
        if kind == 'ops' and (mon.total_entries != N or mon.charges_ok != N - 1):
            fails.append(Failure('deep:ops-limit-error-before-the-Nth-operation',
                                 f'{src[:80]!r}.. (len {len(src)}) budget {N}: ops-limit error raised although only '
                                 f'{mon.total_entries} operations had started ({mon.charges_ok} charged and went on)', case))
            break
    return fails, info


def run_case(case):
    if case['kind'] == 'deep':
        return check_deep(case)[0]
    env = core.dec(case['env'])
    if case['kind'] == 'single':
        return check_single(case['src'], env, case.get('ast'), case.get('fracs', []), case, case.get('swallow', False))[0]
    return check_session(case['setup'], case['targets'], env, case.get('fracs', []), case)[0]


# --------------------------------------------------------------------------------------------- generation
PROBES = [
    'xs | map(v => t(v) + {d})',
    'xs | filter(v => t(v) > {d})',
    'reduce([1, 2, 3, {d}], (a, b) => t(a + b))',
    'sorted([3, 1, {d}], v => t(0 - v))',
    'fr = k => 1 if k <= 1 else k * fr(k - 1)\nfr({r})',
    'fib = k => k if k < 2 else fib(k - 1) + fib(k - 2)\nfib({r})',
    'call(v => t(v) * 2, {d})',
    'call((a, b) => a + t(b), 1, {d})',
    'q = t(1) and t(0) or t({d})',
    'dd["k"] = t(5)\ndd["k"] += t({d})',
    'x = t(1) if t({z}) else t(2)',
    'xs | map(v => call(w => t(w) + v, v))',
    'ys.push(t({d}))\nys | map(v => push(xs, v))',
    'h({d})',
    'sub(t({d})) + t(1)',
    '{{"a": t(1), "b": [t(2), t({d})]}}',
    'xs[t(0):t({d})]',
    'm = items(dd) | map(p => t(p[0]))',
    'del dd[t("k")]',
    'nn | map(row => row | map(c => t(c)))',
    'ctxcall(v => t(v) * 2 + t(1), {d})',
    'xs | map(v => ctxcall(w => t(w) + v, v))',
    'threadcall(v => [t(v), t(v + 1)] | map(w => w * 2), {d})',
    'ctxcall(k => fr3(k), {r})',
    'x = t(1)\nmissing_fn9(x)',
    'xs | map(v => nofn9(t(v)))',
    't({d}).nomethod9()',
    'q = [t(1), t({d}) | nopipe9]',
    'call(v => nofn9(v), t({d}))',
]
SWALLOW = [
    'safe(v => t(v) + undefined_zz, {d})',
    'safe(v => xs | map(w => t(w) * v), {d})\nt(9)',
    'z = safe(k => fr2(k), {r})',
    'safe(v => t(1) / 0, 1) + "x"\nt({d})',
    'safe(v => nofn9(t(v)), {d})\nt(2)',
]
AST_BODIES = ['tmp = a + 1\nt(tmp)\ntmp * 2', 'n = a\nt(n)', 'ys = [a]\nys.push(t(a))\nys']

SESSION_SETUP = [
    'g = x => x + 1',
    'g = x => t(x) * 2',
    'g = (x) => [x, x] | map(v => v + 1) | sum',
    'g = x => 1 if x <= 1 else x * g(x - 1)',
    'acc = (a, b) => a + b\ng = x => reduce([x, 1, 2], acc)',
    'g = x => call(y => y + 1, x)',
]
SESSION_TARGETS = [
    '[1, 2, 3, 4, 5, 6, 7, 8, 9, 10] | map(g)',
    'g({r})',
    'call(g, {r})',
    'sub(1) + g({r})',
    'xs | map(v => g(v))',
    'g(g({r}))',
    'safe(g, {r})',
    'sorted([3, 1, 2], g)',
    'sub(g({r})) + g(1)',
]


@hst.composite
def cases(draw):
    n = lambda k: draw(hst.integers(0, k - 1))  # noqa
    pick = lambda xs: xs[n(len(xs))]  # noqa
    fill = lambda s: s.format(d=n(6), r=1 + n(6), z=n(2))  # noqa
    fracs = [n(1000) for _ in range(8)]
    env = draw(typed.env_strategy())
    if n(4) == 0:
        setup = [pick(SESSION_SETUP)]
        if n(3) == 0:
            setup.append('k2 = 5')
        targets = [fill(pick(SESSION_TARGETS)) for _ in range(1 + n(3))]
        return {'kind': 'session', 'setup': setup, 'targets': targets, 'env': core.enc(env), 'fracs': fracs}
    t = typed.T(draw, allow_errors=True, regex=False)
    parts = []
    swallow = False
    for _ in range(1 + n(4)):
        r = n(10)
        if r < 4:
            parts.append(unparse.full_stmt(t.stmt(n(3))))
        elif r < 9:
            parts.append(fill(pick(PROBES)))
        else:
            parts.append(fill(pick(SWALLOW)))
            swallow = True
    src = '\n'.join(parts)
    ast = None
    if 'h(' in src or n(6) == 0:
        ast = {'h': pick(AST_BODIES)}
        if n(3) == 0:
            ast['zz'] = 'NOOP'
    if 'fr2(' in src:
        src = 'fr2 = k => 1 if k <= 1 else k * fr2(k - 1)\n' + src
    if 'fr3(' in src:
        src = 'fr3 = k => 1 if k <= 1 else k * fr3(k - 1)\n' + src
    return {'kind': 'single', 'src': src, 'env': core.enc(env), 'ast': ast, 'fracs': fracs, 'swallow': swallow}


@hst.composite
def deep_cases(draw):
    n = lambda k: draw(hst.integers(0, k - 1))  # noqa
    shape = 'runaway' if n(2) == 0 else 'nest'
    i = n(63)
    d = [5, 40, 150, 400, 900, 2500][n(6)] + n(30)
    budgets = sorted({[60, 300, 1000, 5000][n(4)] + n(50), [10 ** 4, 10 ** 5, 10 ** 6][n(3)] + n(1000), BIG - n(3), 3 * d + n(5), d + n(5)})
    session = shape == 'runaway' and DEEP_RUNAWAY[i % len(DEEP_RUNAWAY)].find('fdeep') >= 0
    return {'kind': 'deep', 'shape': shape, 'i': i, 'd': d, 'budgets': budgets, 'session': session}


HOF_MARKS = ('ctxcall(', 'threadcall(', 'map(', 'filter(', 'reduce(', 'sorted(', 'call(', 'safe(', 'fr(', 'fib(', 'h(')


def jobs(tier, seed):
    per = 220 if tier == 'quick' else 6000
    deep = 25 if tier == 'quick' else 600
    return [(core.derive_seed(seed, 'c01', i), per) for i in range(16)] + \
           [('deep', core.derive_seed(seed, 'c01deep', i), deep) for i in range(4)]


def run_job(job):
    st = Stats()
    if job[0] == 'deep':
        def dcheck(case):
            fails, info = check_deep(case)
            if info.get('discard'):
                return hyp.Result(discard=True)
            st.maxi('K', info['K'])
            return hyp.Result(fails, info['deep'], ['deep:' + case['shape'], 'deep:stack-exhausted' if info['deep'] else 'deep:shallow'],
                              key=repr((case['shape'], case['i'] % 9, case['d'], case['budgets'])),
                              sample={'src': deep_source(case)[:120], 'budgets': case['budgets'], 'operations_started': info['K']})
        hyp.drive(deep_cases(), dcheck, st, seed=job[1], max_examples=job[2])
        return st
    seed, n = job

    def check(case):
        env = core.dec(case['env'])
        if case['kind'] == 'single':
            fails, info = check_single(case['src'], env, case.get('ast'), case['fracs'], case, case['swallow'])
            if info.get('discard'):
                return hyp.Result(discard=True)
            src = case['src']
            nt = info['K'] >= 5 and any(m in src for m in HOF_MARKS) and '=>' in src + str(case.get('ast'))
            cls = ['single', 'outcome:' + info['outcome'].split(':')[0]] + ['node:' + k for k in info['kinds']]
            if case['swallow']:
                cls.append('swallowing-host')
            if info['K'] > 60:
                cls.append('K>60')
            st.add('budget_runs', info.get('budgets', 0))
            st.maxi('K', info['K'])
            return hyp.Result(fails, nt, cls, key=src + repr(case['env']) + repr(case.get('ast')),
                              sample={'src': src, 'K': info['K'], 'budgets_tried': info.get('budgets', 0), 'ast_names': case.get('ast')})
        fails, info = check_session(case['setup'], case['targets'], env, case['fracs'], case)
        if info.get('discard'):
            return hyp.Result(discard=True)
        return hyp.Result(fails, True, ['session'], key=repr(case['setup']) + repr(case['targets']) + repr(case['env']),
                          sample={'setup': case['setup'], 'targets': case['targets'], 'K': info['K']})

    hyp.drive(cases(), check, st, seed=seed, max_examples=n)
    return st
