"""C18 - list_names reports every name an evaluation can ask the host for.

(1) list(list_names(src)) == NAME tokens of the reference lexer, in order; lexically invalid => ParserError
(2) names in the parsed tree are a subset of list_names + implicit helpers, and list_names is a subset of the tree's names
(3) every key an eval requests from a recording host mapping is in list_names + implicit helpers
(4) generators consumed lazily / interleaved with other calls still yield their own names
"""
from hypothesis import strategies as hst

from sqv import core, hyp
from sqv.core import Failure, Stats
from sqv.gen import sentences, typed
from sqv.spec import reflex, refparse, unparse
from sqv.spec.neutral import neutral

ID = 'C18'
LEVEL = 'exploration'
IMPLICIT = {'list', 'dict', '__getitem__', '__setitem__', '__delitem__', '__setitem_with_op__'}
RULE = ('Hypothesis: (a) texts assembled from ~110 hostile atoms (Unicode letters/digits, %...% names, raw/unterminated strings, '
        'every operator prefix, comments, lone \\r, form feed, NBSP, BOM...) - valid and lexically invalid; (b) parsable programs '
        '(typed programs and grammar sentences) whose identifiers in every role (variable, function, method, pipe target, '
        'parameter, assignment and compound-assignment target) are renamed into a hostile pool: %...% names with spaces, dots, '
        'operators, quotes and #, names adjacent to keywords (nota, inx, r, ra). On one long-lived parser, interleaved with '
        'parse/eval (1 in 3 also after an eval of the same source that passed ast_names reading foreign names) and lazily consumed generators. Oracles (1)-(4) in the module docstring. Non-trivial: >= 3 names in >= 2 '
        'roles, a %...% name containing an operator/space, a name adjacent to a string/comment/keyword, or a lexically '
        'invalid text; distinct by text.')
ASSUMPTIONS = ['the reference lexer (sqv/spec/reflex.py) is the reading of the lexical spec',
               'the host mapping is a dict subclass recording __contains__/__getitem__/__setitem__/get']

ATOMS = ['a', 'b1', '_x', 'r', 'not', 'in', 'and', 'True', 'del', 'for', 'if', 'else', 'é', 'π', '²', '١', '１', 'x²', '%a b%', '%', '%%',
         '%a.b+c%', '"s"', "'t'", 'r"\\d"', '"a\\"b"', "'\\''", '"', "'", '"abc', 'r"', "r'x'", '"\\', '\\', '"\\n"', '""', "''",
         '1', '12.5', '1.', '.5', '1.2.3', '0', '007', '+', '-', '*', '**', '/', '=', '==', '!=', '!', '<', '>', '<=', '>=', '=>', '+=',
         '-=', '*=', '/=', '**=', '=<', '|', '.', ',', ':', '(', ')', '[', ']', '{', '}', ';', '\n', '\r\n', '\r', ' ', '\t', '  ', '#c',
         '# x\n', '#', '$', '?', '@', '~', '^', '&', '`', '\x0c', '\xa0', ' ', '\x00', '﻿', '́', '·', '𝒳', '\U0001F600',
         'nota', 'inx', 'ra', 'rb"x"', '%x%y%', '%#%', 'None1', 'elif', 'raise', '%\n%', 'a%b%', '1a', 'a1.b2']
NAMEPOOL = ['%a  b%', '%a\tb%', '%a b%', '%a b%', '%x.y%', '%a+b%', '%q"r%', '%#h%', '%(%', '% %', '%1%', 'nota', 'inx', 'r', 'ra', '_x', 'é1', 'True_', 'orx', 'delx',
            'ifx', 'x1', 'len', 'str', '%len%', 'α', 'rr', '%it\'s%', '%a,b%', '%a=>b%', '%x;y%']
_parser = None


def parser():
    """one long-lived parser WITH a parse cache (a cache must not change which names an evaluation asks for)"""
    global _parser
    if _parser is None or len(_parser.parse_cache) > 20000:
        from smartquery import SqParser
        _parser = SqParser(parse_cache={})
    return _parser


class Recording(dict):
    def __init__(self, *a, **kw):
        super().__init__(*a, **kw)
        self.requested = []

    def __contains__(self, k):
        self.requested.append(k)
        return super().__contains__(k)

    def __getitem__(self, k):
        self.requested.append(k)
        return super().__getitem__(k)

    def __setitem__(self, k, v):
        self.requested.append(k)
        super().__setitem__(k, v)

    def get(self, k, d=None):
        self.requested.append(k)
        return super().get(k, d)


def tree_names(t, out):
    if isinstance(t, tuple) and t and not isinstance(t[0], str):
        for x in t:
            tree_names(x, out)
    elif isinstance(t, tuple) and t:
        k = t[0]
        if k == 'Name':
            out.add(t[1])
        elif k in ('Assign', 'Short'):
            out.add(t[1])
        elif k == 'Call':
            out.add(t[1])
        for x in t[1:]:
            tree_names(x, out)
    elif isinstance(t, list):
        for x in t:
            tree_names(x, out)
    return out


def rename(e, mp):
    """rename every identifier of a marked tree through mp (built-in helper names of sugar are kept)"""
    if isinstance(e, tuple) and e:
        k = e[0]
        if k == 'Name':
            return ('Name', mp(e[1]))
        if k in ('Assign',):
            return ('Assign', mp(e[1]), rename(e[2], mp))
        if k == 'Short':
            return ('Short', mp(e[1]), e[2], rename(e[3], mp))
        if k == 'Call':
            mark = e[3] if len(e) > 3 else 'call'
            base = (mark or 'call').rstrip(',')
            name = e[1] if base in ('lit', 'idx', 'stmt') or base.startswith('slice') else mp(e[1])
            return ('Call', name, [rename(a, mp) for a in e[2]]) + tuple(e[3:])
        if k == 'Val':
            return e
        return tuple(rename(x, mp) if isinstance(x, (tuple, list)) else x for x in e)
    if isinstance(e, list):
        return [rename(x, mp) for x in e]
    return e


def check_text(text, case, prev_text=None):
    """-> (failures, info)"""
    from smartquery import ParserError
    p = parser()
    fails = []
    info = {'invalid': False, 'names': 0, 'parsed': False}

    def bad(sig, msg):
        fails.append(Failure(sig, f'{text!r}: {msg}'[:1200], case))

    try:
        rtoks = reflex.lex(text)
        rnames = [t.value for t in rtoks if t.kind == 'NAME']
        rerr = False
    except reflex.LexError:
        rnames, rerr = None, True
        info['invalid'] = True
    # (1)
    try:
        got = list(p.list_names(text))
        gerr = None
    except ParserError:
        got, gerr = None, 'ParserError'
    except Exception as e:  # noqa
        got, gerr = None, type(e).__name__
    if rerr:
        if gerr != 'ParserError':
            bad('invalid-text-not-ParserError', f'lexically invalid, list_names gave {gerr or got!r}')
        return fails, info
    if gerr is not None:
        bad('valid-text-raised', f'lexically valid, list_names raised {gerr}')
        return fails, info
    if got != rnames:
        bad('names-differ', f'list_names {got!r}, identifiers in the text {rnames!r}')
        return fails, info
    info['names'] = len(rnames)
    # (4) lazy / interleaved consumption
    if prev_text is not None and rnames:
        try:
            prev_names = [t.value for t in reflex.lex(prev_text) if t.kind == 'NAME']
        except reflex.LexError:
            prev_names = None
        try:
            if prev_names:
                g1, g2 = iter(p.list_names(text)), iter(p.list_names(prev_text))
                z = list(zip(g1, g2))
                if z != list(zip(rnames, prev_names)):
                    bad('interleaved-generators', f'zip(list_names(a), list_names(b)) with b={prev_text!r} gave {z!r}')
                    return fails, info
            g = iter(p.list_names(text))        # any iterable is fine, not necessarily a generator
            first = next(g)
            try:
                p.parse(prev_text)
            except Exception:  # noqa
                pass
            if prev_names is not None:
                list(p.list_names(prev_text))
            rest = list(g)
            if [first] + rest != rnames:
                bad('resumed-generator', f'generator resumed after other calls (on {prev_text!r}) gave {[first] + rest!r}')
                return fails, info
        except Exception as e:  # noqa
            bad('interleaved-generators:raised', f'lazily consumed list_names generators (other text {prev_text!r}) raised {type(e).__name__}: {e}')
            return fails, info
    # (2)
    try:
        tree = neutral(p.parse(text))
    except Exception:  # noqa  not parsable: (2) and (3) do not apply
        return fails, info
    info['parsed'] = True
    tn = tree_names(tree, set())
    ln = set(rnames)
    if not tn <= ln | IMPLICIT:
        bad('tree-name-not-listed', f'the tree uses {sorted(tn - ln - IMPLICIT)!r}, which list_names does not report')
    elif not ln <= tn:
        bad('listed-name-not-in-tree', f'list_names reports {sorted(ln - tn)!r}, which the tree does not contain')
    # (3) with an empty mapping (every lookup misses) and with a mapping that defines every listed name
    if len(text) % 3 == 0:
        # an earlier call in which the host passed ast_names (whose operations read names of the host's choosing) must not
        # change what later evaluations of the same source ask for
        try:
            helper = p.parse('zq2_ * zq3_')
            p.eval(text, Recording({'zq2_': 2, 'zq3_': 3}), ast_names={'zq1_': helper}, max_ops_evaluated=2000)
        except Exception:  # noqa
            pass
        info['after_ast_names'] = True
    for mapping in (Recording(), Recording({n: 1 for n in ln if n not in ('len', 'str')})):
        try:
            p.eval(text, mapping, max_ops_evaluated=2000)
        except Exception:  # noqa
            pass
        asked = {k for k in mapping.requested if isinstance(k, str)}
        extra = asked - ln - IMPLICIT
        if extra:
            bad('host-asked-for-unlisted-name', f'evaluation asked the host mapping for {sorted(extra)!r}; list_names reports {sorted(ln)!r}')
            break
    return fails, info


def run_case(case):
    return check_text(case['text'], case, case.get('prev'))[0]


@hst.composite
def cases(draw):
    n = lambda k: draw(hst.integers(0, k - 1))  # noqa
    pick = lambda xs: xs[n(len(xs))]  # noqa
    if n(3) == 0:
        return {'kind': 'atoms', 'text': ''.join(pick(ATOMS) for _ in range(1 + n(8)))}
    if n(3) == 0:
        stmts, _e, _l = draw(typed.programs(max_stmts=3, max_depth=2))
    else:
        stmts = draw(sentences.programs(max_depth=3, max_stmts=3))
    table = {}

    def mp(name):
        if name not in table:
            table[name] = pick(NAMEPOOL) if n(3) else name
        return table[name]

    stmts = [rename(s, mp) for s in stmts]
    try:
        text = '\n'.join(unparse.minimal_stmt(s) for s in stmts)
    except ValueError:
        text = 'a'
    if n(4) == 0:
        text = pick(['"s"', 'r"x"', '# c\n', 'not ', '1 ']) + text if n(2) else text + pick([' # z', '"t"', ' not in x', ';r"q"'])
    return {'kind': 'program', 'text': text}


def nontrivial(text, info):
    if info['invalid']:
        return True
    if info['names'] >= 3:
        return True
    return '%' in text and any(c in text for c in ' +.#"')


def jobs(tier, seed):
    per = 1300 if tier == 'quick' else 60000
    return [(core.derive_seed(seed, 'c18', i), per) for i in range(16)]


def run_job(job):
    seed, n = job
    st = Stats()
    prev = [None]

    def check(case):
        case = dict(case, prev=prev[0])
        fails, info = check_text(case['text'], case, prev[0])
        prev[0] = case['text']
        cls = ['kind:' + case['kind'], 'invalid' if info['invalid'] else ('parsed' if info['parsed'] else 'lexes-only')] + (['after-ast_names-call'] if info.get('after_ast_names') else [])
        return hyp.Result(fails, nontrivial(case['text'], info), cls, key=case['text'],
                          sample={'text': case['text'], 'names': info['names'], 'lexically_invalid': info['invalid']})

    hyp.drive(cases(), check, st, seed=seed, max_examples=n)
    return st
