"""C05 - regular-expression builtins cannot hang the host.

Each (function, pattern, subject, flags) triple runs in a helper process under a CPU-time cap (setitimer ITIMER_PROF,
default disposition), which measures CPU time of (i) compiling the pattern with a cold cache and (ii) the builtin call
with a cold cache.  Judged on CPU time only, with a threshold 6x the 50 ms timeout plus linear terms.
"""
import time

from hypothesis import strategies as hst

from sqv import core, hyp
from sqv.core import Failure, Stats
from sqv.pool import Child

ID = 'C05'
LEVEL = 'exploration'
RULE = ('Hypothesis triples for each of match/match_groups/match_all taken from the live table: patterns from a grammar '
        'biased to catastrophic shapes (nested and overlapping quantifiers, alternations, counted repeats, back-references, '
        'look-around, possessive/lazy, fuzzy, reverse, long benign padding that makes compilation slow) plus a seed corpus '
        'of classic ReDoS patterns; subjects = pumpable prefix x n (n up to 100000) + non-matching tail, and repeated '
        'expensive-but-matching segments; 1 in 9 subjects pump combining marks in non-canonical order, Hangul jamo, ligatures, '
        'dotted capitals (costly for Unicode normalisation / case folding); subjects capped at 10^5 characters; 1 in 6: cheap patterns over 3000-30000 distinct tokens (very long result lists) '
        'with every single letter a-z/A-Z as flag; flags otherwise from "", i, m, s, ims, junk, None. Oracle: CPU time of the call (cold '
        'compile cache) <= 1.5 x measured compile CPU + 0.30 s + 5 us x |subject| + 50 us x |pattern|, and the helper is not '
        'killed by its 6 s CPU cap. Non-trivial: the call raised TimeoutError or used > 10 ms CPU; distinct by triple.')
ASSUMPTIONS = ['CPU time of an isolated helper process is the measure; wall-clock time is never judged',
               'known finding D5: pattern compilation itself is unbounded; the generator caps the product of nested counted '
               'repeats at 2000 (excluded cases counted) and fixed witnesses print the KNOWN-FINDING line',
               'the third-party regex engine is part of the system under test']

FUNCS = ('match', 'match_groups', 'match_all')


def my_flags(flags):
    import regex
    fl = 0
    if isinstance(flags, list):
        flags = flags[0]
    if flags:
        f = flags.lower()
        if 'i' in f:
            fl |= regex.I
        if 'm' in f:
            fl |= regex.M
        if 's' in f:
            fl |= regex.S
    return fl


def helper(task):
    """runs in the CPU-capped helper. task = (phase, fname, pattern, subject, flags)"""
    import regex
    from smartquery.functions import FUNCTIONS
    phase, fname, pat, subj, flags = task
    regex.purge()
    if phase == 'compile':
        t0 = time.process_time()
        try:
            regex.compile(pat, my_flags(flags))
            out = 'compiled'
        except Exception as e:  # noqa
            out = type(e).__name__
        return time.process_time() - t0, out
    fn = FUNCTIONS[fname]
    extra = ()
    if isinstance(flags, list):       # [flags, extra argument]: a fourth argument must not change the time bound
        flags, extra = flags[0], tuple(flags[1:])
    t0 = time.process_time()
    try:
        if flags is None and not extra:
            fn(subj, pat)
        else:
            fn(subj, pat, flags, *extra)
        out = 'returned'
    except TimeoutError:
        out = 'timeout'
    except Exception as e:  # noqa
        out = type(e).__name__
    return time.process_time() - t0, out


_child = None


def child():
    global _child
    if _child is None:
        _child = Child(helper)
    return _child


def run_triple(case):
    """-> (failures, info)"""
    fname, pat, subj_spec, flags = case['fn'], case['pattern'], case['subject'], case['flags']
    subj = build_subject(subj_spec)
    fails = []
    info = {'timeout': False, 'cpu': 0.0, 'outcome': None, 'compile_cpu': 0.0}
    lin = 5e-6 * len(subj) + 50e-6 * len(pat)
    c = child()
    r = c.call(('compile', fname, pat, subj, flags), cpu_limit=6.0)
    if r[0] == 'died':
        fails.append(Failure('compile', f'compiling {pat[:80]!r} ({len(pat)} chars) exhausted the 6 s CPU cap / memory ({r[1]})', case))
        info['outcome'] = 'compile-died'
        return fails, info
    if r[0] == 'exc':
        raise core.HarnessError(r[1] + '\n' + r[2])
    tc, cout = r[1]
    info['compile_cpu'] = tc
    if tc > 0.30 + 50e-6 * len(pat):
        fails.append(Failure('compile', f'compiling {pat[:80]!r} ({len(pat)} chars) took {tc:.2f} s CPU', case))
    r = c.call(('call', fname, pat, subj, flags), cpu_limit=6.0 + 2 * tc)
    if r[0] == 'died':
        sig = f'match:{fname}' if tc < 2.0 else 'compile'
        fails.append(Failure(sig, f'{fname}(<{len(subj)} chars>, {pat[:80]!r}, {flags!r}) did not return within {6.0 + 2 * tc:.1f} s CPU '
                                  f'(helper killed: {r[1]}; compile alone took {tc:.3f} s)', case))
        info['outcome'] = 'died'
        return fails, info
    if r[0] == 'exc':
        raise core.HarnessError(r[1] + '\n' + r[2])
    cpu, out = r[1]
    info.update(cpu=cpu, outcome=out, timeout=(out == 'timeout'))
    if cpu > 1.5 * tc + 0.30 + lin:
        fails.append(Failure(f'match:{fname}', f'{fname}(<{len(subj)} chars>, {pat[:80]!r}, {flags!r}) took {cpu:.2f} s CPU '
                                               f'(compile {tc:.3f} s; outcome {out})', case))
    return fails, info


def run_case(case):
    try:
        return run_triple(case)[0]
    finally:
        global _child
        if _child is not None:
            _child.close()
            _child = None


def build_subject(spec):
    """spec = [pump, n, tail, repeat]  ->  (pump * n + tail) * repeat"""
    pump, n, tail, rep = spec
    if pump == '#words':
        # n distinct tokens: the result of match_all is long and has no repeats
        digs = '0123456789abcdefghijklmnopqrstuvwxyz'
        return tail.join(digs[i // 1296 % 36] + digs[i // 36 % 36] + digs[i % 36] + 'w' for i in range(n))
    if pump == '#chars':
        return tail.join(chr(0x4e00 + i) for i in range(n))
    return (pump * n + tail) * rep


# ------------------------------------------------------------------------------------------------ generation
EVIL = ['', '', 'a', 'ab', r'(a+)+$', r'(a|aa)+$', r'(a|a?)+$', r'(.*a){12}$', r'(a+)\1+b', r'(?r)b(a+)+', r'(?:a{1,30}){1,30}b', r'(\w+\s?)*$',
        r'(a*)*b', r'^(([a-z])+.)+[A-Z]([a-z])+$', r'(x+x+)+y', r'(?:(?:a|b)*c)+d', r'(?=(a+)+b)', r'(?:aab){e<=3}(?:a+)+$',
        r'((a+)(b*))+c', r'(a|a)+$', r'^(a+)+$', r'(.*){1,30}[bc]', r'(?:a+){2,20}b', r'([a-z]+)*[0-9]', r'(a?){25}a{25}',
        r'(?<=(a+)+)b', r'(a+|b+|ab)*c', r'^(\d+)*$', r'(?i)(A+)+B', r'(?:a|ab|abc|b|bc|c)*d', r'(.+)+\1x', r'((a{1,5}){1,5}){1,5}b']
ATOMS = ['a', 'a', 'b', '.', r'\w', '[ab]', 'a?', '(a|aa)', '(a|a?)', r'\d', '[^b]', 'ab', '(?:a|b)', r'\s?', 'a*']
QUANTS = ['+', '*', '?', '{2,5}', '{1,30}', '+?', '*+', '++', '{e<=1}', '{3}', '{0,9}', '*?']
COUNTS = {'{2,5}': 2, '{1,30}': 1, '{3}': 3, '{0,9}': 1}


@hst.composite
def cases(draw, funcs):
    n = lambda k: draw(hst.integers(0, k - 1))  # noqa
    pick = lambda xs: xs[n(len(xs))]  # noqa
    excluded = 0
    product = [1]

    def quant():
        q = pick(QUANTS)
        c = {'{2,5}': 5, '{1,30}': 30, '{3}': 3, '{0,9}': 9}.get(q, 1)
        if product[0] * c > 2000:
            return '+', 1
        product[0] *= c
        return q, 0

    def pat(d):
        if d <= 0 or n(4) == 0:
            return pick(ATOMS)
        k = n(9)
        if k <= 2:
            q, _ = quant()
            q2, _ = quant()
            return '(' + pat(d - 1) + q + ')' + q2
        if k == 3:
            return '(?:' + pat(d - 1) + '|' + pat(d - 1) + ')' + quant()[0]
        if k == 4:
            return pat(d - 1) + pat(d - 1)
        if k == 5:
            return '(' + pat(d - 1) + '+)' + r'\1' + quant()[0]
        if k == 6:
            return pick(['(?=', '(?!', '(?<=', '(?>']) + pat(d - 1) + ')' + pick(ATOMS)
        if k == 7:
            return '(' + pat(d - 1) + '*)*'
        return '(' + pat(d - 1) + '|' + pat(d - 1) + '?)+'

    r = n(10)
    family = 'grammar'
    if r < 4:
        p = pick(EVIL)
        family = 'seed'
    else:
        p = pat(1 + n(3)) + pick(['$', 'b', '!', 'c', '', r'\1' if False else 'x'])
        if n(6) == 0:
            p = pick(['(?r)', '^', '(?i)', '(?s)']) + p
    rep = 1
    pump = pick(['a', 'a', 'ab', 'aa', 'x', 'a ', '1', 'aab'])
    if n(9) == 0:
        # text that is expensive for Unicode machinery (normalisation, case folding, grapheme handling), not for the matcher
        pump = pick(['\u0301\u0316', 'e\u0301\u0316\u0301\u0316', '\u0316\u0301', '\u1100\u1161', '\u00df', '\u0130', '\ufb01', '\u0041\u030a', '\U0001f468\u200d', '\u0345\u0301',
                     '\u0f71\u0f72\u0f74', '\u05b0\u05b1'])
    nn = pick([20, 25, 30, 40, 100, 1000, 5000, 100000, 28, 35, 50, 14, 16, 18])
    tail = pick(['!', '', 'b', 'c', 'X', 'y'])
    if ord(pump[0]) > 127 or len(pump) > 3:
        nn = pick([20000, 50000, 100000, 100000])
    if len(pump) * nn > 100000:
        nn = 100000 // len(pump)
    if n(7) == 0:
        # many matches, each expensive but below the per-call timeout: (EVIL)c|<tail> over repeated segments
        core_p = pick(['(a|a)+', '(a+)+', '(a|aa)+', '(a*)*', '(a|a?)+'])
        p = core_p + 'c|b'
        pump, nn, tail, rep = 'a', pick([12, 13, 14, 15, 16, 17, 18]), 'b', pick([200, 800, 1500, 3000])
        family = 'segments'
    elif n(7) == 0:
        # slow-to-compile padding next to a catastrophic branch (compile time must not eat the matching timeout)
        p = pick(['(a|a)+$', '(a+)+$', '(a|aa)+$']) + '|' + pick(['(?:x|y)', '(?:xy|z)', '[xy]z']) * pick([100, 2000, 6000, 9000])
        pump, nn, tail = 'a', pick([30, 40, 45]), 'b'
        family = 'padded'
    if family in ('grammar', 'seed') and n(12) == 0:
        p = pick(['', 'a', 'ab', 'aa', ' ', 'b'])       # plain literals and the empty pattern
        family = 'literal'
    if family != 'segments' and family != 'padded' and n(6) == 0:
        # cheap pattern, very many (distinct) results: whatever is done with the matches must stay linear as well
        p = pick([r'\S+', r'\w+', r'[^ ,]+', r'\S', '.', r'\w', r'(\w)(\w*)', r'\b\w', r'(?:\w+)'])
        pump, nn, tail, rep = pick(['#words', '#words', '#chars']), pick([3000, 12000, 20000, 30000]), pick([' ', ',', ' ']), 1
        if pump == '#words' and nn > 20000:
            nn = 20000
        family = 'many-results'
        letters = 'abcdefghijklmnopqrstuvwxyzABCDEFGHIJKLMNOPQRSTUVWXYZ'
        fl = pick(letters) if n(3) else pick(['i', 'ims', 'm', 's', 'I']) + pick(letters)
        return {'fn': pick(funcs), 'pattern': p, 'subject': [pump, nn, tail, rep], 'flags': fl, 'family': family}
    flags = pick(['', 'i', 'm', 's', 'ims', 'xyz', None, 'I', 'i', 'ims', ['', 3600], [None, -1], ['i', 1000000], ['', None], ['ims', 0], 'i m s ' * 10 + 'x', 'i,m,s,' * 12 + '!', 'ims' * 3000, ' ' * 40 + 'i' + ' ' * 40 + '?',
                  'I M S' * 9 + 'q'])
    return {'fn': pick(funcs), 'pattern': p, 'subject': [pump, nn, tail, rep], 'flags': flags, 'family': family}


def jobs(tier, seed):
    per = 190 if tier == 'quick' else 6500
    return [(core.derive_seed(seed, 'c05', i), per) for i in range(16)]


def run_job(job):
    seed, n = job
    st = Stats()
    import smartquery.functions as Fn
    funcs = [f for f in FUNCS if f in Fn.FUNCTIONS]
    if len(funcs) != 3:
        raise core.HarnessError(f'regex builtins missing from the table: {funcs}')
    per_fn = {}

    def check(case):
        fails, info = run_triple(case)
        f = case['fn']
        d = per_fn.setdefault(f, {'calls': 0, 'timeouts': 0, 'max_cpu': 0.0})
        d['calls'] += 1
        d['timeouts'] += int(info['timeout'])
        d['max_cpu'] = max(d['max_cpu'], round(info['cpu'], 3))
        st.maxi('call_cpu_s', round(info['cpu'], 3))
        st.maxi('compile_cpu_s', round(info['compile_cpu'], 3))
        nt = info['timeout'] or info['cpu'] > 0.010
        return hyp.Result(fails, nt, ['family:' + case['family'], 'outcome:' + str(info['outcome'])],
                          key=core.jdump(case),
                          sample={'fn': f, 'pattern': case['pattern'][:120], 'subject': case['subject'], 'flags': case['flags'],
                                  'cpu_s': round(info['cpu'], 3), 'outcome': info['outcome']})

    try:
        hyp.drive(cases(funcs), check, st, seed=seed, max_examples=n, known_sigs=_known_sigs(), shrink_budget_s=20, rounds=2)
    finally:
        global _child
        if _child is not None:
            _child.close()
            _child = None
    for f, d in per_fn.items():
        st.add(f'calls:{f}', d['calls'])
        st.add(f'timeouts:{f}', d['timeouts'])
        st.maxi(f'cpu:{f}', d['max_cpu'])
    return st


def _known_sigs():
    known, _ = core.load_known()
    return [k.signature for k in known if k.prop == ID]
