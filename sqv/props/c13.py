"""C13 - non-mutating builtins never modify their arguments.

Every entry of the live table except the seven declared mutators is called with arguments from the per-builtin shape
tables, directly and through eval (alone, in pipelines, with host-supplied objects); oracle = deep snapshot (structure,
order, types, identity of nested containers) of every argument before vs after.
"""
import copy

from hypothesis import strategies as hst

from sqv import core, hyp
from sqv.core import Failure, Stats
from sqv.gen import shapes
from sqv.values import canon

ID = 'C13'
LEVEL = 'exploration'
RULE = ('Hypothesis: every non-mutator in the live FUNCTIONS table x argument tuples from per-builtin shape tables (lists, '
        'tuples, dicts, nested, strings, key functions, reverse flags, missing keys, defaults; 1 in 7 with extra trailing '
        'container arguments; in 3 of 8 cases every dict is supplied as defaultdict / OrderedDict / a dict subclass with '
        '__missing__), called directly and through '
        'eval in 6 program forms (alone, piped, twice, inside map, with the result mutated afterwards). Oracle: deep '
        'snapshot of every argument (structure, element and key order, exact types, identity of nested containers) is '
        'unchanged after the call, whatever it returned or raised. Non-trivial: >= 1 non-empty container argument and '
        'the call returned normally; distinct by builtin + arguments + form.')
ASSUMPTIONS = ['the subscript builtin __getitem__ is not judged on host mapping types whose own subscript operator inserts (defaultdict)',
               'the mutators are exactly push, pop, insert, remove, __setitem__, __setitem_with_op__, __delitem__ '
               '(the statement\'s list); any other table entry, including new ones, must leave its arguments alone']

_parser = None


def parser():
    global _parser
    if _parser is None:
        from smartquery import SqParser
        _parser = SqParser()
    return _parser


def snap(v, depth=0):
    if depth > 40:
        return 'deep'
    if isinstance(v, dict) and type(v) is not dict:
        return ('dict:' + type(v).__name__, id(v), [(snap(k, depth + 1), snap(x, depth + 1)) for k, x in v.items()])
    if isinstance(v, list):
        return ('list', id(v), [snap(x, depth + 1) for x in v])
    if isinstance(v, tuple):
        return ('tuple', id(v), [snap(x, depth + 1) for x in v])
    if isinstance(v, dict):
        return ('dict', id(v), [(snap(k, depth + 1), snap(x, depth + 1)) for k, x in v.items()])
    return canon(v)


PY_LAMBDAS = {
    'v => v': lambda v: v, 'v => True': lambda v: True, 'v => False': lambda v: False, 'v => 0 - v': lambda v: 0 - v,
    'v => [v]': lambda v: [v], 'v => len(str(v))': lambda v: len(str(v)), 'v => v == v': lambda v: v == v,
    '(a, b) => a': lambda a, b: a, '(a, b) => b': lambda a, b: b, '(k, v) => v': lambda k, v: v, '(k, v) => k': lambda k, v: k,
    '(a, b) => [a, b]': lambda a, b: [a, b], '(a, b) => a == b': lambda a, b: a == b,
}
FORMS = ['{c}', '{c} | str', '[{c}, {c}]', 'r = {c}\nr', 'map([1, 2], q => {c})', 'r = {c}\nr.push(1)\nr']


class MissingDict(dict):
    """a host mapping type whose subscript operator has a side effect for absent keys (like collections.defaultdict)"""

    def __missing__(self, key):
        self[key] = v = []
        return v


def wrap_dicts(v, kind, depth=0):
    """host-supplied values need not be exact dicts: rebuild every dict in `v` as a mapping type of the given kind"""
    import collections
    if kind is None or depth > 30:
        return v
    if isinstance(v, dict):
        items = [(k, wrap_dicts(x, kind, depth + 1)) for k, x in v.items()]
        if kind == 'defaultdict':
            d = collections.defaultdict(list)
            d.update(items)
            return d
        if kind == 'ordered':
            return collections.OrderedDict(items)
        return MissingDict(items)
    if isinstance(v, list):
        return [wrap_dicts(x, kind, depth + 1) for x in v]
    if isinstance(v, tuple) and not shapes.is_marker(v):
        return tuple(wrap_dicts(x, kind, depth + 1) for x in v)
    return v


WRAPS = [None, None, None, None, None, 'defaultdict', 'ordered', 'missing-subclass']


def has_container(args):
    return any(isinstance(a, (list, dict, tuple)) and not shapes.is_marker(a) and len(a) > 0 for a in args)


def run_direct(name, args, case):
    import smartquery.functions as Fn
    fn = Fn.FUNCTIONS.get(name)
    if fn is None:
        return [], {'ok': False}
    real = []
    for a in args:
        if shapes.is_marker(a):
            real.append(PY_LAMBDAS.get(a[1], len) if a[0] == 'lambda' else Fn.FUNCTIONS.get(a[1], len))
        else:
            real.append(a)
    data = [a for a in real if not callable(a)]
    before = [snap(a) for a in data]
    ok = True
    try:
        fn(*real)
    except RecursionError:
        return [], {'ok': False}
    except Exception:  # noqa  result/exception irrelevant
        ok = False
    after = [snap(a) for a in data]
    fails = []
    if before != after:
        fails.append(Failure(f'mutated:{name}', f'direct call {name}{tuple(args)!r} changed its arguments: {before!r} -> {after!r}'[:1200], case))
    return fails, {'ok': ok}


def run_eval(name, args, form, case):
    names = {}
    parts = []
    via_index = form.startswith('idx:')
    if via_index:
        form = form[4:]
    for a in args:
        if shapes.is_marker(a):
            parts.append('(' + a[1] + ')' if a[0] == 'lambda' else a[1])
        else:
            k = f'a{len(names)}'
            if via_index and isinstance(a, (list, dict)):
                # the host object is nested in a wrapper and addressed by a single-index expression
                if len(names) % 2:
                    names[k] = {'k': a}
                    parts.append(f'{k}["k"]')
                else:
                    names[k] = [a]
                    parts.append(f'{k}[0]')
            else:
                names[k] = a
                parts.append(k)
    call = f'{name}({", ".join(parts)})'
    if parts and form.startswith('|'):
        call = f'{parts[0]} | {name}' + (f'({", ".join(parts[1:])})' if len(parts) > 1 else '')
        form = '{c}'
    src = form.format(c=call)
    before = {k: snap(v) for k, v in names.items()}
    ok = True
    try:
        parser().eval(src, names, max_ops_evaluated=20000)
    except RecursionError:
        return [], {'ok': False, 'src': src}
    except Exception:  # noqa
        ok = False
    fails = []
    names.pop('r', None)
    after = {k: snap(v) for k, v in names.items() if k in before}
    if before != after:
        fails.append(Failure(f'mutated:{name}', f'{src!r}: host objects changed: {before!r} -> {after!r}'[:1200], case))
    return fails, {'ok': ok, 'src': src}


def run_case(case):
    args = wrap_dicts(core.dec(case['args']), case.get('wrap'))
    if case['mode'] == 'direct':
        return run_direct(case['builtin'], args, case)[0]
    return run_eval(case['builtin'], args, case['form'], case)[0]


@hst.composite
def cases(draw, table):
    a = shapes.Args(draw)
    name = a.pick(table)
    args = a.call(name, typed_ratio=9, overflow=7)
    mode = 'direct' if a.n(2) else 'eval'
    form = a.pick(FORMS + ['|', '|', 'idx:{c}', 'idx:{c}', 'idx:|', 'idx:r = {c}\nr'])
    return name, args, mode, form, a.pick(WRAPS)


def jobs(tier, seed):
    per = 2600 if tier == 'quick' else 120000
    return [(core.derive_seed(seed, 'c13', i), per) for i in range(16)]


def encode_case(name, args, mode, form, wrap=None):
    return {'builtin': name, 'args': core.enc(list(args)), 'mode': mode, 'form': form, 'wrap': wrap}


def run_job(job):
    seed, n = job
    st = Stats()
    import smartquery.functions as Fn
    table = sorted(k for k in Fn.FUNCTIONS if k not in shapes.MUTATORS)
    calls, oks = {}, {}

    def check(c):
        name, args, mode, form, wrap = c
        if any(shapes.is_marker(a) and a[0] == 'builtin' and a[1] in shapes.MUTATORS for a in args):
            return hyp.Result(discard=True)     # a mutator passed as the callback mutates by design
        if name == '__getitem__' and wrap in ('defaultdict', 'missing-subclass'):
            wrap = None         # subscripting such a mapping inserts by the host type's own definition: not the builtin's doing
        case = encode_case(name, args, mode, form, wrap)
        args = wrap_dicts(args, wrap)
        if mode == 'direct':
            fails, info = run_direct(name, args, case)
        else:
            fails, info = run_eval(name, args, form, case)
        calls[name] = calls.get(name, 0) + 1
        if info['ok']:
            oks[name] = oks.get(name, 0) + 1
        return hyp.Result(fails, info['ok'] and has_container(args), [mode, 'returned' if info['ok'] else 'raised'] + (['host-mapping:' + wrap] if wrap else []),
                          key=repr((name, case['args'], mode, form, wrap)),
                          sample={'builtin': name, 'args': case['args'], 'mode': mode, 'src': info.get('src')})

    hyp.drive(cases(table), check, st, seed=seed, max_examples=n)
    st.extra['per_builtin_calls'] = calls
    st.extra['per_builtin_normal_returns'] = oks
    return st


def finish(stats, tier):
    import smartquery.functions as Fn
    oks = stats.extra.get('per_builtin_normal_returns', {})
    return {'non_mutators_in_table': len([k for k in Fn.FUNCTIONS if k not in shapes.MUTATORS]),
            'never_returning_normally': sorted(k for k in Fn.FUNCTIONS if k not in shapes.MUTATORS and not oks.get(k))}
