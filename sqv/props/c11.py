"""C11 - history independence: every call depends only on its own arguments.

One long-lived SqParser ("shared") against a fresh SqParser per call ("fresh"), driven by the same call sequence with
deep-equal copies of three persistent names mappings.  Plus metamorphic checks for lambdas that persist across calls:
repeating an identical call gives an identical outcome, also after the host changed *other* names mappings.
"""
import copy
from decimal import Decimal as D

from hypothesis import strategies as hst

from sqv import core, hyp
from sqv.core import Failure, Stats
from sqv.spec import refparse
from sqv.spec.neutral import neutral, same_tree
from sqv.values import canon

ID = 'C11'
LEVEL = 'exploration'
RULE = ('Hypothesis call sequences (3-25 steps) on one SqParser: parse(src), eval(src, names_i, budget) over three persistent '
        'names mappings, list_names(src) consumed fully / partially then abandoned / held and resumed after other calls / two '
        'generators interleaved; sources: valid single- and multi-line programs, lexical errors, syntax errors including '
        'unbalanced ( [ { and premature end, runtime failures, ops-limit failures, reserved words, programs that store lambdas '
        'in a persistent mapping and call them later; the host copies lambdas between mappings and pokes other mappings. '
        'The shared parser is plain or built with a parse cache; the host binds / unbinds builtin names (len, sum) in a mapping; '
        'failing powers and inexact divisions are among the sources. Oracle: no call changes the thread\'s decimal context in a '
        'way that alters later results; every call gives the same result (tree / canonical value / name list), the same exception class and message '
        'and the same names as a never-used SqParser given equal arguments; an identical call repeated 30 times, and repeated '
        'after the host changed other mappings, gives the same outcome. Non-trivial: a failing call followed by a successful '
        'one on the same parser, a partially consumed generator, or a cross-call lambda; distinct by sequence.')
ASSUMPTIONS = ['answers of the fresh world are memoised by (call, source, names contents, budget) when the names hold no '
               'callables - sound because that world never carries history']

VALID = ['1', '1.0', '1.00', 'str(1.0)', 'str(1)', 'x + 1.0', '[2.50, 2.5]', 'str(2.5) + str(2.50)', '"1.0" + 1.0', 'True == 1', '1 / 3', 'x / 7', '2 ** 0.5', 'len(y)', 'sum(y) + len(y)', 'y | len', 'fz9(1)', 'match_all("a1b2", "[0-9]") | push(9)', 'match_all("a1b2", "[0-9]")', 'match_groups("ab", "(a)(b)").pop()', 'match_groups("ab", "(a)(b)")',
         'sorted(y) | push(0)', 'sorted(y)', 'split("a b") | push("c")', 'split("a b")', 'x + 1', 'y = [1,\n 2]\nlen(y)', 'a = 1\nb = 2\na + b', 'x = 1; y = 2\nx + y', '[1, 2] | map(v => v * x)', '{"a": [1,\n2]}',
         'z = x\nz', 'f(\n1,\n2\n)' , 'str(x) + "\\n"', '# only a comment', '', 'x if x else 0', 'q = [\n]\nq', 'k = {\n"a": 1\n}\nk["a"]']
LEXERR = ['x $ 1', '"unterminated', 'a ? b', '%x', 'x = 1\ny = @', '\x0cx', 'x\r y']
SYNERR = ['1 /* unclosed', '/* c */ 1', 'x = 1 /*', '"""doc', "'''q", '<!-- x', 'a ${', '`x', '1 // 2', 'x -- y', '(* c', '#| x\n1 |#', '{{', '1 +', 'f(', 'x = (1 + 2', '[1, 2', '{"a": 1', 'x = )', 'a b', ')', 'x = [1,\n2', '(1 + 2))\nx', 'f(1, 2]]', 'del', 'x +* 2',
          '{', '((', 'a[1', 'x = (\n(\n(', ']]]', 'for', 'while x', 'a b\nc d']
RUNERR = ['(0 - 8) ** 0.5', '0 ** 0', '10 ** 1000000', '[1, 0 - 4] | map(v => v ** 0.5)', 'undefined_v + 1', 'x / 0', 'y[99]', 'nofn(1)', '[].pop()', 'x.push(1)', 'uu += 1', 'len(1, 2, 3)']
LAMBDA_DEF = ['g = v => v + 1', 'g = v => v + x', 'g = (a, b) => a', 'g = v => 1 if v <= 1 else v * g(v - 1)', 'h = v => [v] | map(w => w * 2)']
LAMBDA_USE = ['g(3)', 'g(x)', '[1, 2, 3] | map(g)', 'g(g(2))', 'h(2)', 'g(1) + g(2)']
NAMES_SRC = ['a b c', 'x = f(y) + %z w%', 'p.q(r)', 'a "s" b # c', 'not_a_kw in lst', 'a\nb\nc', 'a (b [c', 'a $ b', 'one', '']
_shared = {}
_fresh_memo = {}


def shared(kind='plain'):
    """the long-lived parser under test; 'cached' = constructed with a parse cache (its trees are evaluated again and again)"""
    if kind not in _shared:
        from smartquery import SqParser
        _shared[kind] = SqParser(parse_cache={}) if kind == 'cached' else SqParser()
    return _shared[kind]


def host_len(*a):
    return 'host-len'


def host_sum(*a):
    return 'host-sum'


HOST_FNS = {'len': host_len, 'sum': host_sum}
CTX_PROBES = ['1 / 3', '2 ** 0.5', '(1 / 7) * 3', '0.1 + 0.2']


def ctx_sig():
    import decimal
    c = decimal.getcontext()
    return (c.prec, c.rounding, c.Emin, c.Emax, c.capitals, c.clamp, tuple(sorted(k.__name__ for k, v in c.traps.items() if v)))


def make_names():
    return [{'x': D(5), 'y': [D(1), D(2)]}, {'x': D(0), 'y': []}, {'x': 'sx', 'y': [D(9)], 'lst': [D(1)]}]


def outcome(fn, kind):
    try:
        v = fn()
        if kind == 'parse':
            return ('value', neutral(v))
        if kind == 'names':
            return ('value', list(v))
        return ('value', canon(v))
    except RecursionError:
        return ('recursion', None)
    except Exception as e:  # noqa
        return ('error', f'{type(e).__name__}: {e}')


def has_callable(names):
    return any(callable(v) for v in names.values())


def fresh_call(kind, src, names, budget):
    """the same call on a never-used parser; names is mutated like the shared world's copy"""
    from smartquery import SqParser
    key = None
    if names is None or not has_callable(names):
        key = (kind, src, repr(sorted((k, canon(v)) for k, v in names.items())) if names is not None else None, budget)
        if key in _fresh_memo:
            out, after = _fresh_memo[key]
            if names is not None:
                names.clear()
                names.update(copy.deepcopy(after))
            return out
    p = SqParser()
    if kind == 'parse':
        out = outcome(lambda: p.parse(src), 'parse')
    elif kind == 'names':
        out = outcome(lambda: list(p.list_names(src)), 'names')
    elif kind == 'eval-nonames':
        out = outcome(lambda: p.eval(src, max_ops_evaluated=budget), 'eval')
    else:
        out = outcome(lambda: p.eval(src, names, max_ops_evaluated=budget), 'eval')
    if key is not None and (names is None or not has_callable(names)):
        if len(_fresh_memo) > 20000:
            _fresh_memo.clear()
        _fresh_memo[key] = (out, copy.deepcopy(names) if names is not None else None)
    return out


def same_outcome(a, b, kind):
    if a[0] != b[0]:
        return False
    if a[0] == 'value' and kind == 'parse':
        return same_tree(a[1], b[1])
    return a[1] == b[1]


def cn(names):
    return [(k, canon(v)) for k, v in names.items()]


def run_sequence(ops, case):
    import decimal
    p = shared(case.get('parser', 'plain'))
    ctx0 = decimal.getcontext().copy()
    sig0 = ctx_sig()
    sn = make_names()        # shared world's mappings
    fn = make_names()        # fresh world's mappings
    fails = []
    info = {'steps': 0, 'fail_then_ok': False, 'partial_gen': False, 'cross_lambda': False}
    held = []                # (generator, expected full list, items taken so far)
    last_failed = False

    def bad(sig, msg):
        fails.append(Failure(sig, f'{msg}; sequence so far {ops[:info["steps"] + 1]!r}'[:1500], case))

    for op in ops:
        kind = op[0]
        if kind in ('parse', 'eval', 'names'):
            src = op[1]
            pre_names = None
            if kind == 'eval' and op[2] is not None and not has_callable(sn[op[2]]):
                pre_names = copy.deepcopy(sn[op[2]])
            if kind == 'parse':
                so = outcome(lambda: p.parse(src), 'parse')
                fo = fresh_call('parse', src, None, None)
            elif kind == 'names':
                so = outcome(lambda: list(p.list_names(src)), 'names')
                fo = fresh_call('names', src, None, None)
            elif len(op) > 4 and op[4] == 'ast':
                # an eval that passes ast_names: its definitions must not outlive the call
                i, budget = op[2], op[3]
                from smartquery import SqParser as _SP
                so = outcome(lambda: p.eval(src, sn[i], ast_names={'fz9': p.parse('v => v + 1'), 'len': p.parse('v => 42')}, max_ops_evaluated=budget), 'eval')
                fp = _SP()
                fo = outcome(lambda: fp.eval(src, fn[i], ast_names={'fz9': fp.parse('v => v + 1'), 'len': fp.parse('v => 42')}, max_ops_evaluated=budget), 'eval')
                for world in (sn, fn):
                    world[i].pop('fz9', None)
                    world[i].pop('len', None)
            elif op[2] is None:
                so = outcome(lambda: p.eval(src, max_ops_evaluated=op[3]), 'eval')
                fo = fresh_call('eval-nonames', src, None, op[3])
                # a fresh parser of the same process may share hidden module state: also compare with the reference
                try:
                    from sqv.spec import refsem
                    rout, _ = refsem.run(refparse.parse_text(src), {}, max_ops=op[3])
                    if rout[0] == 'value' and (so[0] != 'value' or so[1] != canon(rout[1])):
                        bad('history-dependent:eval-without-names', f'eval({src!r}) without a names mapping gave {so!r}; with no earlier call it gives {rout[1]!r}')
                        break
                    if rout[0] == 'lang' and so[0] == 'value':
                        bad('history-dependent:eval-without-names', f'eval({src!r}) without a names mapping returned {so!r}; with no earlier call it fails')
                        break
                except Exception:  # noqa  (unparsable source: nothing to compare)
                    pass
            else:
                i, budget = op[2], op[3]
                so = outcome(lambda: p.eval(src, sn[i], max_ops_evaluated=budget), 'eval')
                fo = fresh_call('eval', src, fn[i], budget)
            if 'recursion' in (so[0], fo[0]):
                break
            if not same_outcome(so, fo, kind):
                bad(f'history-dependent:{kind}', f'{kind}({src!r}' + (f', names{op[2]}, budget {op[3]}' if kind == 'eval' else '') +
                    f') on the used parser gave {so!r}, on a fresh parser {fo!r}')
                break
            if kind == 'eval' and pre_names is not None and len(op) == 4 and so[0] == 'value' and 'rand' not in src and 'shuffle' not in src:
                # absolute expectation as well: process-wide hidden state would fool the fresh-parser comparison
                try:
                    from sqv.spec import refsem
                    rout, _ = refsem.run(refparse.parse_text(src), pre_names, max_ops=op[3])
                    if rout[0] == 'value' and canon(rout[1]) != so[1]:
                        bad('history-dependent:eval-vs-reference', f'eval({src!r}, names{op[2]}) gave {so!r}; the reference semantics give {rout[1]!r}')
                        break
                except Exception:  # noqa
                    pass
            if kind == 'eval' and op[2] is not None and cn(sn[op[2]]) != cn(fn[op[2]]):
                bad('history-dependent:names', f'eval({src!r}) left names {sn[op[2]]!r} on the used parser, {fn[op[2]]!r} on a fresh one')
                break
            if ctx_sig() != sig0:
                # the call changed the thread's decimal context: hidden state that every parser of this thread shares (the fresh-parser
                # comparison cannot see it).  It is a violation if it changes what later calls return.
                now = ctx_sig()
                diffs = []
                for probe in CTX_PROBES:
                    a = outcome(lambda: p.eval(probe, {}), 'eval')
                    with decimal.localcontext(ctx0):
                        b = outcome(lambda: p.eval(probe, {}), 'eval')
                    if a != b:
                        diffs.append((probe, a, b))
                decimal.setcontext(ctx0.copy())
                _fresh_memo.clear()
                if diffs:
                    bad('history-dependent:decimal-context', f'{kind}({src!r}) changed the decimal context of the thread from {sig0} to {now}; '
                        f'afterwards eval({diffs[0][0]!r}) gives {diffs[0][1]!r} instead of {diffs[0][2]!r}')
                    break
            if so[0] == 'error':
                last_failed = True
            else:
                if last_failed:
                    info['fail_then_ok'] = True
                last_failed = False
        elif kind == 'gen-open':
            # start a list_names generator and take k items, keep it for later
            src, k = op[1], op[2]
            full = fresh_call('names', src, None, None)
            if full[0] != 'value':
                continue
            try:
                g = iter(p.list_names(src))
                taken = []
                for _ in range(k):
                    try:
                        taken.append(next(g))
                    except StopIteration:
                        break
            except Exception as e:  # noqa
                bad('history-dependent:generator', f'list_names({src!r}) raised {type(e).__name__}: {e} while a fresh parser lists {full[1]!r}')
                break
            if taken != full[1][:len(taken)]:
                bad('history-dependent:generator', f'list_names({src!r}) yielded {taken!r}, expected a prefix of {full[1]!r}')
                break
            held.append((g, full[1], taken))
            info['partial_gen'] = True
        elif kind == 'gen-resume':
            if not held:
                continue
            g, full, taken = held.pop(op[1] % len(held))
            try:
                rest = list(g)
            except Exception as e:  # noqa
                bad('history-dependent:generator', f'resumed list_names generator raised {type(e).__name__}: {e}; expected {full[len(taken):]!r}')
                break
            if taken + rest != full:
                bad('history-dependent:generator', f'resumed list_names generator completed to {taken + rest!r}, expected {full!r}')
                break
        elif kind == 'gen-abandon':
            if held:
                held.pop(op[1] % len(held))
        elif kind == 'copy':
            name, i, j = op[1], op[2], op[3]
            for world in (sn, fn):
                if name in world[i]:
                    world[j][name] = world[i][name]
                    info['cross_lambda'] = info['cross_lambda'] or callable(world[i][name])
        elif kind == 'shadow':
            # the host binds one of the builtins' names in a mapping (or removes the binding again)
            name, i, on = op[1], op[2], op[3]
            for world in (sn, fn):
                if on:
                    world[i][name] = HOST_FNS[name]
                else:
                    world[i].pop(name, None)
            info['cross_lambda'] = True
        elif kind == 'repeat':
            # an identical expression-only call repeated: identical outcomes, also after other mappings changed
            src, i, budget = op[1], op[2], op[3]
            before = cn(sn[i])
            first = outcome(lambda: p.eval(src, sn[i], max_ops_evaluated=budget), 'eval')
            if first[0] == 'recursion':
                break
            if cn(sn[i]) != before:
                fresh_call('eval', src, fn[i], budget)
                continue        # the call changes its own names: repetitions are different calls
            info['cross_lambda'] = info['cross_lambda'] or has_callable(sn[i])
            for r in range(30):
                if r == 10:
                    for j in range(3):
                        if j != i:
                            for world in (sn, fn):
                                world[j]['x'] = D(1000 + j)
                                world[j]['y'] = ['poked']
                nxt = outcome(lambda: p.eval(src, sn[i], max_ops_evaluated=budget), 'eval')
                if nxt != first:
                    bad('repeat-unstable', f'eval({src!r}, names{i}, budget {budget}) gave {first!r} first and {nxt!r} on repetition {r + 1}'
                        + (' (after the host changed the other mappings)' if r >= 10 else ''))
                    break
            if fails:
                break
        info['steps'] += 1
    return fails, info


def run_case(case):
    ops = [tuple(o) for o in case['ops']]
    _shared.clear()         # replay starts from new shared parsers
    return run_sequence(ops, case)[0]


@hst.composite
def cases(draw):
    n = lambda k: draw(hst.integers(0, k - 1))  # noqa
    pick = lambda xs: xs[n(len(xs))]  # noqa
    ops = []
    for _ in range(3 + n(23)):
        r = n(100)
        if r < 12:
            ops.append(('parse', pick(VALID + SYNERR + LEXERR)))
        elif r < 20:
            ops.append(('eval', pick(['len(y)', 'y | len', 'sum(y)', 'sum(y) + len(y)', 'y.len()', '[len(y), len([1])]', 'map([y], len)']), n(3), 100))
        elif r < 30:
            ops.append(('eval', pick(VALID + RUNERR), n(3), pick([100, 100, 1000, 4, 2])))
        elif r < 45:
            ops.append(('eval', pick(SYNERR + LEXERR), n(3), 100))
        elif r < 48:
            ops.append(('eval', pick(['zq = 7', 'zq', 'g = v => v * 3', 'g(2)', 'x = 1\ny = (', 'x', 'len = 5', 'len([1])']), None, 100))
        elif r < 50:
            ops.append(('eval', pick(['fz9(1)', 'len([1, 2])', 'x + 1', 'fz9(x)']), n(3), 100, 'ast'))
        elif r < 52:
            ops.append(('eval', pick(LAMBDA_DEF), n(3), 100))
        elif r < 62:
            ops.append(('eval', pick(LAMBDA_USE), n(3), pick([100, 100, 30, 8])))
        elif r < 70:
            ops.append(('names', pick(NAMES_SRC + VALID + SYNERR)))
        elif r < 77:
            ops.append(('gen-open', pick(NAMES_SRC + VALID), n(3)))
        elif r < 83:
            ops.append(('gen-resume', n(4)))
        elif r < 85:
            ops.append(('gen-abandon', n(4)))
        elif r < 90:
            ops.append(('copy', pick(['g', 'h', 'x']), n(3), n(3)))
        elif r < 96:
            ops.append(('shadow', pick(['len', 'sum']), n(3), n(3) > 0))
        else:
            ops.append(('repeat', pick(LAMBDA_USE + ['x + 1', 'len(y)']), n(3), pick([100, 100, 40])))
    return {'ops': ops, 'parser': pick(['plain', 'cached'])}


def jobs(tier, seed):
    per = 36 if tier == 'quick' else 1500
    return [(core.derive_seed(seed, 'c11', i), per) for i in range(16)]


def run_job(job):
    seed, n = job
    st = Stats()

    def check(case):
        ops = [tuple(o) for o in case['ops']]
        fails, info = run_sequence(ops, case)
        st.add('steps', info['steps'])
        nt = info['fail_then_ok'] or info['partial_gen'] or info['cross_lambda']
        cls = [k for k in ('fail_then_ok', 'partial_gen', 'cross_lambda') if info[k]] + ['parser:' + case.get('parser', 'plain')]
        return hyp.Result(fails, nt, cls, key=repr(ops) + case.get('parser', ''), sample={'ops': [list(o) for o in ops][:14]})

    hyp.drive(cases(), check, st, seed=seed, max_examples=n, shrink_budget_s=40)
    return st
