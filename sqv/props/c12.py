"""C12 - assignment has value semantics: stored values are independent copies.

(1) differential against the reference value semantics on assignment/mutation/read sequences (two evals with the host
    mutating its own object in between);
(2) identity invariant checked by the monitor right after every assignment-like operation: the mutable objects reachable
    from the stored value (for += on lists: from the newly appended elements) are disjoint from those reachable from every
    other binding, from the other slots of the same container and from the host's own references.
"""
import copy
from decimal import Decimal as D

from hypothesis import strategies as hst

from sqv import core, hyp
from sqv.core import Failure, Stats
from sqv.monitor import Monitor
from sqv.spec import refparse, refsem
from sqv.spec.neutral import neutral
from sqv.values import canon

ID = 'C12'
LEVEL = 'exploration'
RULE = ('Hypothesis sequences (1-8 statements, then the host mutates its own object, then 1-3 more statements and a read of '
        'everything) over nested list/dict/tuple values (depth <= 4, shared sub-objects, host-supplied objects also held by '
        'the host, one of them with dict keys that are not strings, one that cannot be deep-copied): the four assignment forms x = e, c[k] = e, x += e, c[k] += e with sources that are literals, variables, '
        'elements, containers built from variables, x = x + [..], tuples from enumerate/items, map results, lambda parameters; '
        '1 case in 5 calls a host function hf whose body is a parsed multi-statement program (ast_names) that assigns from its '
        'parameter and mutates the copy or the source; mutations '
        'through either side (push/pop/insert/remove, index and compound index assignment, del, nested push). Oracles: '
        'reference value semantics on result and names; identity-disjointness invariant after every assignment-like node. '
        'Non-trivial: the assigned value contains a nested mutable and a later mutation targets something reachable from '
        'the source or the copy; distinct by program.')
ASSUMPTIONS = ['for x += v / c[k] += v on lists the invariant covers the newly appended elements only (existing elements may '
               'alias other objects legitimately, push and list literals pass by reference)',
               'the monitor reads VMState.names.scopes when present and falls back to the host mapping otherwise']

VARS = ['x', 'y', 'z', 'h', 'w']
AST_BODIES = ['t = a\npush(t, 99)\nt', 't = a\nt[0] = 5\na', 't = [a]\nt[0].push(1)\nlen(a)', 'q = a\nq.push(7)\nq', 'w = {"k": a}\nw["k"].push(3)\n0',
              't = a\na.push(4)\nt', 't = a\nu2 = t\nu2.push(6)\n[a, t, u2]', 'c = [0]\nc[0] = a\nc[0].push(2)\nc']
_parser = None


def parser():
    global _parser
    if _parser is None:
        from smartquery import SqParser
        _parser = SqParser()
    return _parser


def reach(v, acc, skip=None, cut=None):
    """mutable containers reachable from v (id -> object); skip = (container id, key) edge not to follow;
    cut = (list id, n): only the first n elements of that list are followed"""
    stack = [v]
    while stack:
        x = stack.pop()
        if isinstance(x, (list, dict)):
            if id(x) in acc:
                continue
            acc[id(x)] = x
            items = x.items() if isinstance(x, dict) else enumerate(x)
            for k, y in items:
                if skip is not None and skip[0] == id(x) and skip[1] == k:
                    continue
                if cut is not None and cut[0] == id(x) and k >= cut[1]:
                    continue
                stack.append(y)
        elif isinstance(x, tuple):
            stack.extend(x)
    return acc


def key_cast(container, key):
    if isinstance(container, dict):
        return str(key)
    return int(key) if isinstance(key, D) else key


def host_env():
    hobj = [[D(1)], {'k': [D(2)]}]
    shared = [D(5)]
    import threading
    unc = {'items': [D(1)], 'lock': threading.Lock(), 'k': [D(4)]}       # deepcopy of this host object fails
    # a host object whose dicts have keys that are not strings (legal host data; programs address only string keys)
    odd = [{1: [D(3)], D('2.5'): 'v', True: [D(1)], None: D(2), 'k': {7: [D(8)]}}, [{D(1): D(1)}]]
    names = {'h': hobj, 'x': [[D(0)]], 'y': {'k': [D(1)], 'a': shared}, 'z': [[D(2)], shared], 'u': unc, 'w': odd}
    return names, [hobj, shared, unc, odd]


def run_program(case):
    """-> (failures, info)"""
    from smartquery import ParserError
    p = parser()
    src1, src2 = case['src1'], case['src2']
    fails = []
    info = {'outcome': None, 'assign_checks': 0}

    def bad(sig, msg):
        fails.append(Failure(sig, f'{src1!r} / host mutation / {src2!r}: {msg}'[:1400], case))

    try:
        t1 = refparse.parse_text(src1)      # the reference runs on the tree the grammar derives from the text
        t2 = refparse.parse_text(src2)
        ast_i = ast_r = None
        if case.get('ast'):
            # the host supplies a function whose body is a parsed multi-statement program (ast_names)
            from smartquery.ast_ops import LambdaOp, NameOp
            ast_i = {'hf': LambdaOp([NameOp('a')], p.parse(case['ast']))}
            ast_r = {'hf': ('Lambda', [('Name', 'a')], refparse.parse_text(case['ast']))}
    except Exception:  # noqa
        info['discard'] = True
        return fails, info
    inames, ihost = host_env()
    rnames, rhost = host_env()
    viol = []
    cur_state = [None]

    def scopes_of(state):
        sd = getattr(state, 'names', None)
        sc = getattr(sd, 'scopes', None)
        if isinstance(sc, list) and len(sc) >= 2:
            return sc[1:]
        return [inames]

    len_before = {}

    def pre_charge(node, state):
        cur_state[0] = state
        if type(node).__name__ == 'ShortOp':
            nm = getattr(node, 'name', None)
            for sc in reversed(scopes_of(state)):
                if nm in sc:
                    len_before[id(node)] = len(sc[nm]) if isinstance(sc[nm], list) else None
                    break

    def post_node(node, state, r):
        kind = type(node).__name__
        if kind not in ('AssignOp', 'ShortOp'):
            return
        nm = getattr(node, 'name', None)
        scs = scopes_of(state)
        top = scs[-1]
        if nm not in top:
            return
        stored = top[nm]
        info['assign_checks'] += 1
        if kind == 'ShortOp':
            n0 = len_before.pop(id(node), None)
            if not isinstance(stored, list) or n0 is None:
                return
            S = {}
            for el in stored[n0:]:
                reach(el, S)
            if id(stored) in S:
                return              # self-containing value: disjointness is not defined
            cut = (id(stored), n0)
            O = {}
            for sc in scs:
                for k, v in sc.items():
                    if sc is top and k == nm:
                        continue
                    reach(v, O, cut=cut)
            for el in stored[:n0]:
                reach(el, O, cut=cut)
            for hr in ihost:
                reach(hr, O, cut=cut)
            O.pop(id(stored), None)
            inter = set(S) & set(O)
            if inter:
                viol.append((f'aliasing:{kind}', f'after {kind} of {nm!r} the appended elements share {[S[i] for i in inter][:2]!r} with another binding'))
            return
        else:
            S = reach(stored, {})
            O = {}
            for sc in scs:
                for k, v in sc.items():
                    if sc is top and k == nm:
                        continue
                    reach(v, O)
        for hr in ihost:
            reach(hr, O)
        inter = set(S) & set(O)
        if inter:
            viol.append((f'aliasing:{kind}', f'after {kind} of {nm!r} the stored value shares {[S[i] for i in inter][:2]!r} with another binding'))

    pending = []

    def pre_builtin(name, args):
        if name == '__setitem_with_op__' and len(args) >= 2:
            try:
                cur = args[0][key_cast(args[0], args[1])]
                pending.append(len(cur) if isinstance(cur, list) else None)
            except Exception:  # noqa
                pending.append(None)

    def builtin_exc(name, args, e):
        if name == '__setitem_with_op__' and pending:
            pending.pop()

    def post_builtin(name, args, r):
        if name not in ('__setitem__', '__setitem_with_op__') or len(args) < 2:
            return
        container = args[0]
        try:
            key = key_cast(container, args[1])
            stored = container[key]
        except Exception:  # noqa
            if name == '__setitem_with_op__' and pending:
                pending.pop()
            return
        info['assign_checks'] += 1
        state = cur_state[0]
        scs = scopes_of(state) if state is not None else [inames]
        O = {}
        for sc in scs:
            for k, v in sc.items():
                reach(v, O, skip=(id(container), key))
        for hr in ihost:
            reach(hr, O, skip=(id(container), key))
        if name == '__setitem_with_op__':
            n0 = pending.pop() if pending else None
            if not isinstance(stored, list) or n0 is None:
                return
            S = {}
            for el in stored[n0:]:
                reach(el, S)
            if id(stored) in S or id(container) in S:
                return              # self-containing value
            cut = (id(stored), n0)
            O = {}
            for sc in scs:
                for k, v in sc.items():
                    reach(v, O, cut=cut)
            for hr in ihost:
                reach(hr, O, cut=cut)
            O.pop(id(stored), None)
        else:
            S = reach(stored, {})
            if id(container) in S:
                return              # the container was stored into itself
        inter = set(S) & set(O)
        if inter:
            viol.append((f'aliasing:{name}', f'after {name} at key {key!r} the stored value shares {[S[i] for i in inter][:2]!r} with something else'))

    mon = Monitor(wrap_builtins=True)
    mon.pre_charge = pre_charge
    mon.post_node = post_node
    mon.pre_builtin = pre_builtin
    mon.post_builtin = post_builtin
    mon.builtin_exc = builtin_exc

    def both(src, tree):
        out, _ = refsem.run(tree, rnames, ast_names=ast_r)
        gk, got, ge = 'value', None, None
        with mon.on():
            try:
                got = p.eval(src, inames, ast_names=ast_i, max_ops_evaluated=10 ** 6)
            except ParserError as e:
                gk, ge = 'lang', e
            except RecursionError as e:
                gk, ge = 'recursion', e
            except Exception as e:  # noqa
                gk, ge = 'other', e
        return out, gk, got, ge

    def compare(tag, out, gk, got, ge):
        if out[0] == 'unspec' or gk == 'recursion':
            return 'discard'
        if out[0] in ('any', 'other', 'lang'):
            # which class of error is raised is C07's / C16's question, not this property's
            if gk == 'value':
                bad('class:error-expected', f'{tag}: reference expects an error, got {got!r}')
                return 'fail'
        elif out[0] != gk:
            bad(f'class:{out[0]}-vs-{gk}', f'{tag}: reference {out[0]}, implementation {gk} {ge if ge else got!r}')
            return 'fail'
        elif gk == 'value' and canon(got) != canon(out[1]):
            bad('value', f'{tag}: expected {out[1]!r} got {got!r}')
            return 'fail'
        ri = [(k, canon(v)) for k, v in rnames.items()]
        ii = [(k, canon(v)) for k, v in inames.items()]
        if ri != ii:
            bad('names', f'{tag}: names expected {rnames!r} got {inames!r}')
            return 'fail'
        if [canon(x) for x in rhost] != [canon(x) for x in ihost]:
            bad('host-object', f'{tag}: the host\'s own objects differ: expected {rhost!r} got {ihost!r}')
            return 'fail'
        return 'ok'

    out, gk, got, ge = both(src1, t1)
    info['outcome'] = out[0]
    for sig, msg in viol:
        bad(sig, msg)
    if fails:
        return fails, info
    st = compare('first eval', out, gk, got, ge)
    if st == 'discard':
        info['discard'] = True
        return fails, info
    if st == 'fail':
        return fails, info
    # the host mutates its own objects between the evals (in both worlds)
    for world in (ihost, rhost):
        hobj, shared = world[0], world[1]
        if hobj and isinstance(hobj[0], list):
            hobj[0].append(D(99))
        if len(hobj) > 1 and isinstance(hobj[1], dict) and isinstance(hobj[1].get('k'), list):
            hobj[1]['k'].append(D(98))
        hobj.append([D(96)])
        shared.append(D(97))
    out, gk, got, ge = both(src2, t2)
    for sig, msg in viol:
        bad(sig, msg)
    if not fails:
        if compare('second eval', out, gk, got, ge) == 'discard':
            info['discard'] = True
    return fails, info


def run_case(case):
    return run_program(case)[0]


# ------------------------------------------------------------------------------------------------ generation
@hst.composite
def cases(draw):
    n = lambda k: draw(hst.integers(0, k - 1))  # noqa
    pick = lambda xs: xs[n(len(xs))]  # noqa

    def val(d=0):
        r = n(10)
        if d > 2 or r < 3:
            return pick(['1', '"s"', 'None', '2.5'])
        if r < 7:
            return '[' + ', '.join(val(d + 1) for _ in range(n(4))) + ']'
        return '{' + ', '.join('"%s": %s' % (pick('abc'), val(d + 1)) for _ in range(n(4))) + '}'

    def src_expr():
        r = n(100)
        v = pick(VARS)
        if r < 22:
            return val()
        if r < 45:
            return v
        if r < 55:
            return f'{v}[0]'
        if r < 63:
            return f'[{pick(VARS)}, {pick(VARS)}]'
        if r < 70:
            return '{"k": %s}' % v
        if r < 76:
            return f'map({v}, e => e)'
        if r < 82:
            return f'enumerate({v})[0]'
        if r < 86:
            return 'items(y)[0]'
        if r < 90:
            return f'{v}["k"]'
        if r < 94:
            return f'[{v}[0], {v}]'
        if r < 93:
            return f'({v} if True else {pick(VARS)})'
        if r < 96:
            return pick([f'({v} or [])', f'({v} and {pick(VARS)})', f'({v} + {pick(VARS)})', f'[{v} or 1]', '{"v": %s or []}' % v, f'(None or {v})'])
        return f'get(y, "a")'

    def stmt():
        r = n(100)
        v = pick(VARS)
        if r < 2:
            return pick(['x = u', 'x = u\nx["items"].push(9)', 'y["k"] = u', 'z[0] = u["items"]\nz[0].push(8)', 'x = [u]', 'x = u["k"]\nx.push(3)'])
        if r < 4:
            return pick([f'{v}[0] = {v}[0]', f'{v}[1] = {v}[1]', 'y["a"] = y["a"]', 'y["a"] = get(y, "a", [])', f'{v}["k"] = {v}["k"] or []'])
        if r < 30:
            return f'{v} = {src_expr()}'
        if r < 42:
            return f'{v}[0] = {src_expr()}'
        if r < 50:
            return f'{v}["k"] = {src_expr()}'
        if r < 58:
            return f'{v} += {src_expr()}'
        if r < 65:
            return f'{v}.push({src_expr()})'
        if r < 72:
            return f'{v}[0].push(1)'
        if r < 78:
            return f'{v}[0] += [{pick(VARS)}]'
        if r < 82:
            return f'{v}["k"] += [{src_expr()}]'
        if r < 86:
            return f'del {v}[0]'
        if r < 89:
            return f'{v}.pop()'
        if r < 92:
            return f'{v}[0][0] = {src_expr()}'
        if r < 95:
            return f'f = p => p.push(7)\nf({v})'
        if r < 97:
            return f'{v}.insert(0, {src_expr()})'
        return f'{v}["k"].push(3)'

    ast = None
    if n(5) == 0:
        ast = pick(AST_BODIES)

    def stmt2():
        r = n(12)
        v = pick(VARS)
        if ast is not None and r < 3:
            return pick([f'hf({v})', f'{pick(VARS)} = hf({v})', f'hf({v}[0])', f'{v}.hf()', f'[{v}] | map(e => hf(e))'])
        if r == 3:
            return pick([f'{v} = {v} + [{src_expr()}]', f'{v} = {v} + [1]', f'{v} = {v} + [[2], {pick(VARS)}]', f'{v} = {v} + []'])
        return stmt()

    s1 = [stmt2() for _ in range(1 + n(8))]
    s2 = [stmt2() for _ in range(n(3))] + ['[x, y, z, h, w]']
    return {'src1': '\n'.join(s1), 'src2': '\n'.join(s2), 'ast': ast}


def nontrivial(case):
    s = case['src1'] + '\n' + case['src2']
    assigns = any(f'{v} = ' in s or f'{v}[0] = ' in s or '] = ' in s or ' += ' in s for v in VARS)
    mutates = any(m in s for m in ('.push(', '.pop(', 'del ', '.insert(', '] = ', '] += '))
    return assigns and mutates and ('[' in s)


def jobs(tier, seed):
    per = 700 if tier == 'quick' else 32000
    return [(core.derive_seed(seed, 'c12', i), per) for i in range(16)]


def run_job(job):
    seed, n = job
    st = Stats()

    def check(case):
        fails, info = run_program(case)
        if info.get('discard'):
            return hyp.Result(discard=True)
        st.add('assignment_invariant_checks', info['assign_checks'])
        return hyp.Result(fails, nontrivial(case), ['outcome:' + str(info['outcome'])], key=case['src1'] + '\x00' + case['src2'] + '\x00' + str(case.get('ast')),
                          sample={'src1': case['src1'], 'src2': case['src2'], 'ast_names_body': case.get('ast')})

    hyp.drive(cases(), check, st, seed=seed, max_examples=n)
    return st
