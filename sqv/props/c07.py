"""C07 - evaluation agrees with the reference semantics on every well-typed program (value, names, error class, op count)."""
import copy

from hypothesis import strategies as hst

from sqv import core, hyp
from sqv.core import Failure, Stats
from sqv.gen import typed
from sqv.monitor import Monitor
from sqv.spec import reflex, refparse, refsem, unparse
from sqv.spec.neutral import neutral
from sqv.values import canon, data_names

ID = 'C07'
LEVEL = 'exploration'
RULE = ('Hypothesis type-directed programs (1-6 statements, nesting <= 4, host-supplied names of every type) over every '
        'operator, statement form, slice form and deterministic builtin, rendered fully parenthesised; operands and dict '
        'keys may pop from / measure host lists (evaluation order is observable); 1 case in 6 runs after the shared '
        'parser was given a text that fails (unclosed brackets, illegal characters, runtime and ops-limit errors), 1 in 6 after it '
        'evaluated, with no names mapping, a program that binds variables, lambdas and names of builtins; the reference '
        'interpreter (sqv/spec/refsem.py) runs on the tree the frozen reference parser derives from the text; compared: outcome class '
        '(value / ParserError / other Exception), canonical value (type class + exact Decimal representation), host '
        'names afterwards (also after a failure), and charges == node entries == reference node evaluations. '
        'Non-trivial: >= 3 distinct operator/builtin/form labels and at least one container or lambda; distinct by '
        'source text + environment.')
ASSUMPTIONS = ['reference interpreter delegates Decimal arithmetic to Python decimal (exactness is C08\'s oracle)',
               'cases outside the reference\'s stated builtin domains are discarded and counted (Unspec)']

BUDGET = 200000
_parser = None


def parser():
    global _parser
    if _parser is None:
        from smartquery import SqParser
        _parser = SqParser()
    return _parser


def render(stmts):
    return '\n'.join(unparse.full_stmt(s) for s in stmts)


POISON = ['max(1, 2', 'foo(1 2)', '[1, 2 ? 3]', '1 + 2)', '{"a": [1, (2', 'x = [', 'f(a,\n b', '(((', '"unterminated', 'a[1:', '%open',
          '{1: 2,, 3}', 'v => (v', '[1, 2] | map(v => v +', '[1, 2] | map(v => v / 0)', 'f = n => f(n + 1)\nf(0)', 'q = {"a": [1, 2]}\nq["a"][5]',
          'del [1][3]', '[3, 1] | sorted(v => undefined_name_9)', '((1)', '[(]', 'a = 1 +\n2', '#only a comment', '', '\n\n', 'x.']


# earlier, successful calls made WITHOUT a names mapping (the documented default): what they bind - variables, names of
# builtins, lambdas - belongs to that call alone
PRIOR = ['keys = [1, 2]\nvalues = 3\nitems = "s"', 'len = 5\nsum = len\nmin = 1\nmax = 2', 'map = 1\nfilter = 2\nreduce = 3\nsorted = 4',
         'str = 1\nint = 2\nlist = 3\ndict = 4', 'a = 1\nb = [1, 2]\nc = {"k": 1}\nx = 9\nn = 2\ns = "s"\nl = [0]\nd = {}',
         'abs = v => 0 - 1\nround = v => 7\npush = 1\npop = 2', 'f = v => v + 1\ng = f\nf(1)', 'upper = 1\nlower = 2\nsplit = 3\njoin = 4\nreplace = 5',
         'v = 1\nw = 2\ni = 3\nk = 4\nacc = 5\nt = 6\ne = 7']


def run_source(src, env, poison=None, prior=None):
    """-> (failures, info) ; env = plain-data names; poison = a text the shared parser is given first (it may fail in any way);
    prior = a text the shared parser evaluates first with no names mapping at all (it succeeds)"""
    from smartquery import ParserError
    p = parser()
    case = {'src': src, 'env': core.enc(env)}
    if prior is not None:
        case['prior'] = prior
        try:
            p.eval(prior)
        except RecursionError:
            return [], {'discard': 'recursion'}
        except Exception as e:  # noqa  the prior texts are fixed, well-typed programs of plain assignments: each has a value
            return [Failure('class:value-vs-error:nameless-call', f'{prior!r} evaluated without a names mapping (on a parser that '
                            f'evaluated other programs before): reference outcome value; implementation {type(e).__name__}: {e}',
                            case)], {'outcome': 'value', 'ops': 0}
    if poison is not None:
        case['poison'] = poison
        try:
            p.eval(poison, {}, max_ops_evaluated=60)
        except RecursionError:
            return [], {'discard': 'recursion'}
        except Exception:  # noqa  what an earlier, unrelated call did is not judged here - only that it leaves no trace
            pass
    # the program is its text: the reference interpreter runs on the tree the frozen reference parser derives from it
    try:
        tree = refparse.parse([(t.kind, t.value) for t in reflex.lex(src)])
    except (refparse.Rej, reflex.LexError) as e:
        raise core.HarnessError(f'generated program is not a sentence of the reference grammar: {src!r} ({e})')
    renv = copy.deepcopy(env)
    out, interp = refsem.run(tree, renv, max_ops=BUDGET)
    if out[0] == 'unspec':
        return [], {'discard': 'unspec'}
    ienv = copy.deepcopy(env)
    mon = Monitor()
    gk, got, ge = 'value', None, None
    with mon.on():
        try:
            got = p.eval(src, ienv, max_ops_evaluated=BUDGET)
        except ParserError as e:
            gk, ge = 'lang', e
        except RecursionError:
            return [], {'discard': 'recursion'}
        except Exception as e:  # noqa
            gk, ge = 'other', e
    fails = []
    why = None
    sig = None
    if out[0] in ('any', 'other'):
        if gk == 'value':
            sig, why = 'class:error-expected', f'reference: some error; implementation returned {got!r}'
    elif out[0] != gk:
        sig = f'class:{out[0]}-vs-{gk}'
        why = f'reference outcome {out[0]}' + (f' {out[1]!r}' if out[0] == 'value' else '') + \
              f'; implementation {gk} ' + (repr(got)[:200] if gk == 'value' else f'{type(ge).__name__}: {ge}')
    elif gk == 'value' and canon(got) != canon(out[1]):
        sig, why = 'value', f'expected {out[1]!r} got {got!r}'
    if why is None and data_names(ienv) != data_names(renv):
        sig, why = 'names', f'names expected {renv!r} got {ienv!r}'
    if why is None and set(ienv) != set(renv):
        sig, why = 'names', f'names keys expected {sorted(renv)} got {sorted(ienv)}'
    if mon.total_entries > 3 and mon.charges_ok + mon.charges_raised == 0:
        raise core.HarnessError('monitor: node evaluations observed but no charge through Op.eval (seam moved?)')
    if why is None and mon.charges_ok + mon.charges_raised != mon.total_entries:
        sig, why = 'ops:charge-vs-entries', f'{mon.charges_ok}+{mon.charges_raised} charges for {mon.total_entries} node evaluations'
    if why is None and interp.ops != mon.charges_ok + mon.charges_raised:
        sig, why = 'ops:count', f'reference performs {interp.ops} node evaluations, implementation charged {mon.charges_ok + mon.charges_raised}'
    if why:
        fails.append(Failure(sig, f'{src!r} with {env!r}: {why}'[:1500], case))
    return fails, {'outcome': out[0], 'ops': interp.ops}


def run_case(case):
    return run_source(case['src'], core.dec(case['env']), case.get('poison'), case.get('prior'))[0]


CONTAINER_LABELS = ('literal:', 'index:', 'slice:', 'lambda', 'fn:map', 'fn:filter', 'fn:reduce', 'fn:sorted', 'stmt:setitem',
                    'mutate:', 'call:user-lambda', 'stmt:lambda-def', 'fn:push', 'fn:pop', 'fn:insert')


def nontrivial(labels):
    return len(labels) >= 3 and any(l.startswith(CONTAINER_LABELS) for l in labels)


def jobs(tier, seed):
    per = 1400 if tier == 'quick' else 60000
    return [(core.derive_seed(seed, 'c07', i), per, tier) for i in range(16)]


def run_job(job):
    seed, n, tier = job
    st = Stats()
    depth = 3 if tier == 'quick' else 4

    from hypothesis import strategies as hst

    @hst.composite
    def cases(draw):
        c = draw(typed.programs(max_depth=depth, effects=True))
        k = draw(hst.integers(0, 6 * len(POISON) - 1))
        j = draw(hst.integers(0, 6 * len(PRIOR) - 1))
        return c + (POISON[k] if k < len(POISON) else None, PRIOR[j] if j < len(PRIOR) else None)

    def check(c):
        stmts, env, labels, poison, prior = c
        try:
            src = render(stmts)
        except ValueError as e:
            raise core.HarnessError(f'unparse: {e}')
        fails, info = run_source(src, env, poison, prior)
        if poison is not None:
            labels = labels + ['after-failed-call-on-same-parser']
        if prior is not None:
            labels = labels + ['after-nameless-call-on-same-parser']
        if 'discard' in info:
            st.add('discard:' + info['discard'])
            return hyp.Result(discard=True)
        cls = ['outcome:' + info['outcome']] + labels
        return hyp.Result(fails, nontrivial(labels), cls, key=src + '\x00' + repr(sorted(env.items(), key=lambda kv: kv[0])),
                          sample={'src': src, 'outcome': info['outcome'], 'ops': info['ops']})

    hyp.drive(cases(), check, st, seed=seed, max_examples=n)
    return st


def finish(stats, tier):
    total = stats.evaluations + stats.extra.get('discarded', 0)
    return {'discard_fraction': round(stats.extra.get('discarded', 0) / max(1, total), 4)}
