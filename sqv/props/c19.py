"""C19 - random builtins stay within their documented range."""
import copy
import random
from decimal import Decimal as D

from hypothesis import strategies as hst

from sqv import core, hyp
from sqv.core import Failure, Stats

ID = 'C19'
LEVEL = 'exploration'
DRAWS = 200
RULE = ('Hypothesis inputs x 200 draws each, the random module re-seeded by the harness before every draw: rand(); rand(a, b) '
        'with integer-valued a <= b given as Decimal literals, host ints, host Decimals (5, 5.0, 5E+2), negative, equal and up '
        'to 10^30; rand(list) for lists of length 1-20; shuffle(list) including empty, one-element, duplicate and nested lists; '
        'through eval (call, method and pipe form). Oracle: 0 <= rand() < 1; rand(a, b) integer-valued with a <= n <= b (for '
        'widths <= 3 the 200 draws make an off-by-one bound show up); rand(list) is identical to an element; shuffle returns a '
        'new list object that is a permutation by identity, the argument is unchanged, and mutating the result does not touch '
        'the argument. Non-trivial: range width <= 3 or bounds that are not plain small ints; lists with duplicates; lists of '
        'length < 2; distinct by input.')
ASSUMPTIONS = ['bounds are integer-valued and a <= b (the statement\'s domain)']

_parser = None


def parser():
    global _parser
    if _parser is None:
        from smartquery import SqParser
        _parser = SqParser()
    return _parser


_cached = None


def cached_parser():
    global _cached
    if _cached is None or len(_cached.parse_cache) > 3000:
        from smartquery import SqParser
        _cached = SqParser(parse_cache={})
    return _cached


def lit2(v):
    """source text of a plain value (the marker 'ROW' stands for the host variable row = [7, 8])"""
    if v == 'ROW':
        return 'row'
    if v is None or v is True or v is False:
        return repr(v)
    if isinstance(v, D):
        return lit(v)
    if isinstance(v, str):
        return '"%s"' % v
    if isinstance(v, list):
        return '[' + ', '.join(lit2(x) for x in v) + ']'
    if isinstance(v, dict):
        return '{' + ', '.join('"%s": %s' % (k, lit2(x)) for k, x in v.items()) + '}'
    raise TypeError(v)


def lit(v):
    if isinstance(v, D):
        s = format(v, 'f')
        return s if v >= 0 else f'(0 - {s[1:]})'
    raise TypeError(v)


def check_case(case):
    """-> (failures, info)"""
    kind = case['kind']
    p = parser()
    fails = []
    seed0 = case['seed']

    def bad(sig, msg):
        fails.append(Failure(sig, msg[:900], case))

    if kind == 'rand0':
        for i in range(DRAWS):
            random.seed(seed0 + i)
            try:
                r = p.eval(case['src'], {})
            except Exception as e:  # noqa
                bad('rand():raised', f'{case["src"]}: {type(e).__name__}: {e}')
                break
            if isinstance(r, bool) or not isinstance(r, (D, int, float)) or not (0 <= r < 1):
                bad('rand():range', f'{case["src"]} returned {r!r}')
                break
        return fails, {'nontrivial': True}
    if kind == 'randab':
        a, b = core.dec(case['a']), core.dec(case['b'])
        names = {'a': a, 'b': b}
        lo, hi = int(a), int(b)
        seen = set()
        for i in range(DRAWS):
            random.seed(seed0 + i)
            try:
                r = p.eval(case['src'], names)
            except Exception as e:  # noqa
                bad('rand(a,b):raised', f'{case["src"]} with a={a!r} b={b!r}: {type(e).__name__}: {e}')
                break
            if isinstance(r, bool) or not isinstance(r, (D, int)) or r != int(r):
                bad('rand(a,b):not-integer', f'{case["src"]} with a={a!r} b={b!r} returned {r!r}')
                break
            if not (lo <= r <= hi):
                bad('rand(a,b):out-of-range', f'{case["src"]} with a={a!r} b={b!r} returned {r!r}')
                break
            seen.add(int(r))
        # (whether both bounds are ever produced is not part of the statement: informational only)
        return fails, {'full_range_seen': hi - lo <= 3 and seen == set(range(lo, hi + 1)), 'nontrivial': hi - lo <= 3 or not (type(a) is int and type(b) is int and abs(a) < 100 and abs(b) < 100)}
    if kind in ('randlit', 'shufflelit'):
        # the list is spelled out in the program text; the host mutates every result it is handed
        from sqv.values import canon
        lst = core.dec(case['list'])
        want = [canon(x) for x in lst]
        row = [D(7), D(8)]
        names = {'row': row}
        pp = cached_parser() if case.get('cached') else p
        for i in range(40):
            random.seed(seed0 + i)
            try:
                r = pp.eval(case['src'], names)
            except Exception as e:  # noqa
                bad(f'{kind}:raised', f'{case["src"]}: {type(e).__name__}: {e}')
                break
            if kind == 'randlit':
                if canon(r) not in want:
                    bad('rand(list):not-an-element', f'{case["src"]} returned {r!r} on draw {i + 1}' + (' (parser with a parse cache)' if case.get('cached') else ''))
                    break
                got = [r]
            else:
                if not isinstance(r, list) or sorted(map(repr, (canon(x) for x in r))) != sorted(map(repr, want)):
                    bad('shuffle:not-a-permutation', f'{case["src"]} returned {r!r} on draw {i + 1}' + (' (parser with a parse cache)' if case.get('cached') else ''))
                    break
                got = [r] + list(r)
            for x in got:
                if isinstance(x, list):
                    x.append('seen-by-host')
                elif isinstance(x, dict):
                    x['seen-by-host'] = 1
            row[:] = [D(7), D(8)]
        return fails, {'nontrivial': True}
    lst = core.dec(case['list'])
    names = {'l': lst}
    snapshot = copy.deepcopy(lst)
    ids = [id(x) for x in lst]
    if kind == 'randlist':
        for i in range(DRAWS if len(lst) < 1000 else 5):
            random.seed(seed0 + i)
            try:
                r = p.eval(case['src'], names)
            except Exception as e:  # noqa
                bad('rand(list):raised', f'{case["src"]} with {lst!r}: {type(e).__name__}: {e}')
                break
            if not any(r is x for x in lst):
                bad('rand(list):not-an-element', f'{case["src"]} with {lst!r} returned {r!r}')
                break
        if lst != snapshot:
            bad('rand(list):argument-changed', f'{case["src"]}: {snapshot!r} -> {lst!r}')
        return fails, {'nontrivial': len(lst) != len(set(map(repr, lst))) or len(lst) <= 2}
    # shuffle
    for i in range(min(DRAWS, 60) if len(lst) < 1000 else 3):
        random.seed(seed0 + i)
        try:
            r = p.eval(case['src'], names)
        except Exception as e:  # noqa
            bad('shuffle:raised', f'{case["src"]} with {lst!r}: {type(e).__name__}: {e}')
            break
        if not isinstance(r, list):
            bad('shuffle:not-a-list', f'returned {r!r}')
            break
        if r is names['l'] or r is lst:
            bad('shuffle:same-object', f'{case["src"]} with {lst!r} returned its argument, not a new list')
            break
        if sorted(id(x) for x in r) != sorted(ids):
            bad('shuffle:not-a-permutation', f'{case["src"]} with {lst!r} returned {r!r}')
            break
        if [id(x) for x in names['l']] != ids or names['l'] != snapshot:
            bad('shuffle:argument-changed', f'{case["src"]}: argument {snapshot!r} -> {names["l"]!r}')
            break
        r.append('mutated-by-host')
        if names['l'] != snapshot:
            bad('shuffle:result-aliases-argument', f'appending to the result of {case["src"]} changed the argument: {names["l"]!r}')
            break
    return fails, {'nontrivial': len(lst) < 2 or len(lst) != len(set(map(repr, lst)))}


def run_case(case):
    return check_case(case)[0]


@hst.composite
def cases(draw):
    n = lambda k: draw(hst.integers(0, k - 1))  # noqa
    pick = lambda xs: xs[n(len(xs))]  # noqa
    seed = draw(hst.integers(0, 10 ** 6))
    kind = pick(['rand0', 'randab', 'randab', 'randab', 'randlist', 'shuffle', 'shuffle'])
    if kind == 'rand0':
        return {'kind': kind, 'src': pick(['rand()', 'rand() * 1', 'x = rand()\nx']), 'seed': seed}
    if kind == 'randab':
        lo = draw(hst.one_of(hst.integers(-20, 20), hst.integers(-10 ** 30, 10 ** 30), hst.sampled_from([0, -1, -3, -5, 1, 10])))
        width = pick([0, 0, 1, 2, 3, 3, 9, 100, 10 ** 6, 10 ** 30])
        hi = lo + width
        style = pick(['literal', 'int', 'decimal', 'decimal.0', 'decimalE', 'mixed'])
        conv = {'int': lambda v: v, 'decimal': lambda v: D(v), 'decimal.0': lambda v: D(str(v) + '.0'),
                'decimalE': lambda v: D(v).normalize()}
        if style == 'literal' and (max(abs(lo), abs(hi)) >= 10 ** 27):
            style = 'decimal'       # a negative literal is spelled (0 - x): exact only within 28 digits
        if style == 'literal':
            src = f'rand({lit(D(lo))}, {lit(D(hi))})'
            a, b = D(lo), D(hi)
        else:
            src = pick(['rand(a, b)', 'a.rand(b)', 'a | rand(b)'])
            if style == 'mixed':
                a, b = lo, D(hi)
            else:
                a, b = conv[style](lo), conv[style](hi)
        return {'kind': kind, 'src': src, 'a': core.enc(a), 'b': core.enc(b), 'seed': seed}
    if n(4) == 0:
        elems = [D(1), D(2), 'a', None, True, [D(1), D(2)], [D(3), D(4)], [D(1), D(2), D(3)], [], {'a': D(1)}, {}, [[D(1)]], 'ROW', D('2.50'), [D(5)]]
        lst = [pick(elems) for _ in range(pick([1, 1, 1, 2, 2, 3, 5]))]
        kind2 = 'randlit' if kind == 'randlist' else 'shufflelit'
        text = lit2(lst)
        src = pick(['rand(%s)', '%s.rand()', '%s | rand', 'x = %s\nrand(x)', 'map([1, 2, 3], q => rand(%s))[q0]'] if kind2 == 'randlit' else
                   ['shuffle(%s)', '%s.shuffle()', '%s | shuffle', 'x = %s\nshuffle(x)'])
        src = src.replace('%s', text).replace('q0', str(n(3)))
        value = [[D(7), D(8)] if x == 'ROW' else x for x in lst]
        return {'kind': kind2, 'src': src, 'list': core.enc(value), 'seed': seed, 'cached': bool(n(2))}
    k = pick([0, 1, 1, 2, 3, 5, 20]) if kind == 'shuffle' else pick([1, 1, 2, 3, 20])
    pool = [D(1), D(2), D(1), 'a', 'a', None, True, D('1.0')]
    lst = [[D(n(3))] if n(5) == 0 else pick(pool) for _ in range(k)]
    if n(25) == 0:
        lst = [D(i % 7) for i in range(10001 + n(3))]       # host lists may be longer than the language's own cap
    src = pick(['rand(l)', 'l.rand()', 'l | rand']) if kind == 'randlist' else pick(['shuffle(l)', 'l.shuffle()', 'l | shuffle'])
    return {'kind': kind, 'src': src, 'list': core.enc(lst), 'seed': seed}


def jobs(tier, seed):
    per = 500 if tier == 'quick' else 12000
    return [(core.derive_seed(seed, 'c19', i), per) for i in range(16)]


def run_job(job):
    seed, n = job
    st = Stats()

    def check(case):
        fails, info = check_case(case)
        st.add('draws', DRAWS)
        if info.get('full_range_seen'):
            st.add('small_ranges_fully_covered')
        return hyp.Result(fails, info['nontrivial'], ['kind:' + case['kind']] + (['cached-parser'] if case.get('cached') else []), key=core.jdump({k: v for k, v in case.items() if k != 'seed'}),
                          sample={k: v for k, v in case.items()})

    hyp.drive(cases(), check, st, seed=seed, max_examples=n)
    return st
