"""C09 - lazy and/or/if-else; all other operands evaluated once, left to right.

Exhaustive enumeration of typed statement shapes with a logging host probe at every leaf, under all truth assignments of
the probes and with every probe (or none) raising; reference = a small evaluator of shapes (order, laziness, values).
"""
import itertools
from decimal import Decimal as D
from functools import lru_cache

from hypothesis import strategies as hst

from sqv import core, hyp
from sqv.core import Failure, Stats

ID = 'C09'
LEVEL = 'exploration'
RULE = ('Typed statement shapes (assignment, compound assignment, index assignment, compound index assignment, del, '
        'expression statement) over 42 expression node kinds (arithmetic, comparison, in/not in, and, or, unary minus, not, '
        'if-else, the unparenthesised chain a if c else b if c2 else d, calls with 0-3 arguments, method and pipe calls, list '
        'and dict literals, index, four slice forms, a lambda body run twice by map) with a '
        'logging host probe at every leaf: ALL shapes with up to 2 internal nodes (thorough: also every 7th 3-node shape) x ALL truth assignments of '
        'the scalar probes x every choice of one raising probe or none (exhaustive; distinct by construction; the exception '
        'raised is a subclass of TypeError / KeyError / ValueError / IndexError / ZeroDivisionError / AttributeError / Exception in turn), the '
        'non-raising cases again on a parser with a parse cache (one tree evaluated under every assignment), plus '
        'Hypothesis-sampled larger shapes. Oracle: probe log equal to the reference evaluator\'s (exactly once, in order, '
        'nothing after a raising probe), same value and type. Non-trivial: >= 2 probes and a lazy construct, or >= 3 probes.')
ASSUMPTIONS = ['every sub-expression is rendered parenthesised so that grouping (C06) cannot interfere',
               'host probes t/tc/ti/h are plain Python callables supplied through names']

KINDS = [
    ('add', 'N', ('N', 'N')), ('sub', 'N', ('N', 'N')), ('mul', 'N', ('N', 'N')), ('div', 'N', ('N', 'N')), ('pow', 'N', ('N', 'N')),
    ('eq', 'N', ('N', 'N')), ('lt', 'N', ('N', 'N')), ('ge', 'N', ('N', 'N')),
    ('and', 'N', ('N', 'N')), ('or', 'N', ('N', 'N')), ('in', 'N', ('N', 'C')), ('notin', 'N', ('N', 'C')),
    ('neg', 'N', ('N',)), ('not', 'N', ('N',)), ('if', 'N', ('N', 'N', 'N')),            # (then, cond, else) in source order
    ('call0', 'N', ()), ('call1', 'N', ('N',)), ('call2', 'N', ('N', 'N')), ('call3', 'N', ('N', 'N', 'N')),
    ('call2c', 'N', ('N', 'N')), ('meth2c', 'N', ('N', 'N')), ('pipe2c', 'N', ('N', 'N')), ('pipe3c', 'N', ('N', 'N', 'N')),
    ('ucall1', 'N', ('N',)), ('ucall2', 'N', ('N', 'N')), ('umeth1', 'N', ('N',)), ('gt', 'N', ('N', 'N')),
    ('meth1', 'N', ('N',)), ('meth2', 'N', ('N', 'N')), ('pipe1', 'N', ('N',)), ('pipe2', 'N', ('N', 'N')),
    ('list1', 'C', ('N',)), ('list2', 'C', ('N', 'N')), ('dict1', 'N', ('N', 'N')), ('dict2', 'N', ('N', 'N', 'N', 'N')),
    ('idx', 'N', ('C', 'I')), ('sl_ab', 'C', ('C', 'I', 'I')), ('sl_a', 'C', ('C', 'I')), ('sl_b', 'C', ('C', 'I')),
    ('sl_c', 'C', ('C', 'I')),
    ('ifc', 'N', ('N', 'N', 'N', 'N', 'N')),     # a if c1 else b if c2 else d, unparenthesised: the else branch extends to the right
    ('maplam', 'C', ('N',)),                     # map([1, 2], v => E): the same body node is evaluated twice
]
STMTS = [('assign', ('N',)), ('short', ('N',)), ('setitem', ('C', 'I', 'N')), ('setop', ('C', 'I', 'N')), ('del', ('C', 'I')),
         ('expr', ('N',)), ('exprC', ('C',)), ('shortmul', ('N',)), ('setopmul', ('C', 'I', 'N'))]
BINSYM = {'gt': '>', 'add': '+', 'sub': '-', 'mul': '*', 'div': '/', 'pow': '**', 'eq': '==', 'lt': '<', 'ge': '>=', 'and': 'and', 'or': 'or',
          'in': 'in', 'notin': 'not in'}


@lru_cache(None)
def compositions(n, k):
    if k == 0:
        return [()] if n == 0 else []
    return [(i,) + rest for i in range(n + 1) for rest in compositions(n - i, k - 1)]


@lru_cache(None)
def shapes(t, n):
    """all shapes of result type t with exactly n internal nodes"""
    if n == 0:
        return [('P', t)]
    out = []
    for name, rt, cts in KINDS:
        if rt != t:
            continue
        for split in compositions(n - 1, len(cts)):
            for kids in itertools.product(*[shapes(ct, k) for ct, k in zip(cts, split)]):
                out.append((name,) + kids)
    return out


def stmts(n):
    for name, cts in STMTS:
        for split in compositions(n, len(cts)):
            for kids in itertools.product(*[shapes(ct, k) for ct, k in zip(cts, split)]):
                yield (name,) + kids


LABELS = {'distinct': lambda i: i, 'same': lambda i: 0, 'mod2': lambda i: i % 2}


def render(sh, ctr, lab=None):
    k = sh[0]
    if k == 'P':
        i = ctr[0]
        ctr[0] += 1
        if lab is not None:
            i = lab(i)
        return {'N': f't({i})', 'C': f'tc({i})', 'I': f'ti({i})'}[sh[1]]
    if k == 'if':
        a = render(sh[1], ctr, lab)
        b = render(sh[2], ctr, lab)
        e = render(sh[3], ctr, lab)
        return f'({a} if {b} else {e})'
    c = [render(x, ctr, lab) for x in sh[1:]]
    if k == 'ifc':
        return f'({c[0]} if {c[1]} else {c[2]} if {c[3]} else {c[4]})'
    if k == 'maplam':
        return f'map([1, 2], v => {c[0]})'
    if k in BINSYM:
        return f'({c[0]} {BINSYM[k]} {c[1]})'
    if k == 'neg':
        return f'(-{c[0]})'
    if k == 'not':
        return f'(not {c[0]})'
    if k == 'call2c':
        return 'h(' + ', '.join(c) + ',)'
    if k == 'meth2c':
        return f'(({c[0]}).h({c[1]},))'
    if k == 'pipe2c':
        return f'(({c[0]}) | h({c[1]},))'
    if k == 'pipe3c':
        return f'(({c[0]}) | h({c[1]}, {c[2]},))'
    if k.startswith('call'):
        return 'h(' + ', '.join(c) + ')'
    if k.startswith('ucall'):
        return 'nosuch9(' + ', '.join(c) + ')'
    if k == 'umeth1':
        return f'(({c[0]}).nosuch9())'
    if k == 'meth1':
        return f'(({c[0]}).h())'
    if k == 'meth2':
        return f'(({c[0]}).h({c[1]}))'
    if k == 'pipe1':
        return f'(({c[0]}) | h)'
    if k == 'pipe2':
        return f'(({c[0]}) | h({c[1]}))'
    if k.startswith('list'):
        return '[' + ', '.join(c) + ']'
    if k == 'dict1':
        return '{%s: %s}' % (c[0], c[1])
    if k == 'dict2':
        return '{%s: %s, %s: %s}' % tuple(c)
    if k == 'idx':
        return f'({c[0]}[{c[1]}])'
    if k == 'sl_ab':
        return f'({c[0]}[{c[1]}:{c[2]}])'
    if k == 'sl_a':
        return f'({c[0]}[{c[1]}:])'
    if k == 'sl_b':
        return f'({c[0]}[:{c[1]}])'
    if k == 'sl_c':
        return f'({c[0]}[::{c[1]}])'
    if k == 'assign':
        return f'x = {c[0]}'
    if k == 'short':
        return f'x += {c[0]}'
    if k == 'shortmul':
        return f'x *= {c[0]}'
    if k == 'setitem':
        return f'{c[0]}[{c[1]}] = {c[2]}'
    if k == 'setop':
        return f'{c[0]}[{c[1]}] += {c[2]}'
    if k == 'setopmul':
        return f'{c[0]}[{c[1]}] *= {c[2]}'
    if k == 'del':
        return f'del {c[0]}[{c[1]}]'
    if k in ('expr', 'exprC'):
        return c[0]
    raise ValueError(k)


class Raise(Exception):
    pass


# the raising probe raises a subclass of one of the exception types that library code commonly catches and retries / translates
RAISE_CLASSES = [Raise] + [type('Raise' + b.__name__, (Raise, b), {}) for b in (TypeError, KeyError, ValueError, IndexError, ZeroDivisionError, AttributeError)]


TRUTHY = [D(11), D(12), D(13), D(14), D(15), D(16), D(17), D(18)]


def probe_value(i, typ, truth):
    if typ == 'C':
        return [D(0), D(1), D(2)]
    if typ == 'I':
        return D(1) if i % 2 else D(0)
    return TRUTHY[i % 8] if truth.get(i, True) else D(0)


def count(sh):
    return 1 if sh[0] == 'P' else sum(count(x) for x in sh[1:])


def nodes(sh):
    return 0 if sh[0] == 'P' else 1 + sum(nodes(x) for x in sh[1:])


def has_lazy(sh):
    return sh[0] in ('and', 'or', 'if', 'ifc') or any(has_lazy(x) for x in sh[1:] if isinstance(x, tuple))


def ev(sh, ctr, truth, raises, log, lab=None):
    """reference: evaluation order + laziness + values (lab maps leaf positions to probe labels; None = identity)"""
    k = sh[0]
    if k == 'P':
        i = ctr[0]
        ctr[0] += 1
        if lab is not None:
            i = lab(i)
        log.append(i)
        if i == raises:
            raise Raise()
        return probe_value(i, sh[1], truth)
    if k in ('and', 'or'):
        a = ev(sh[1], ctr, truth, raises, log, lab)
        if (k == 'and') == bool(a):
            return ev(sh[2], ctr, truth, raises, log, lab)
        ctr[0] += count(sh[2])
        return a
    if k == 'if':
        c0 = ctr[0]
        ctr[0] = c0 + count(sh[1])
        cond = ev(sh[2], ctr, truth, raises, log, lab)
        after = ctr[0]
        if cond:
            ctr[0] = c0
            r = ev(sh[1], ctr, truth, raises, log, lab)
        else:
            r = ev(sh[3], ctr, truth, raises, log, lab)
        ctr[0] = after + count(sh[3])
        return r
    if k == 'ifc':
        return ev(('if', sh[1], sh[2], ('if', sh[3], sh[4], sh[5])), ctr, truth, raises, log, lab)
    if k == 'maplam':
        c0 = ctr[0]
        r1 = ev(sh[1], ctr, truth, raises, log, lab)
        ctr[0] = c0
        return [r1, ev(sh[1], ctr, truth, raises, log, lab)]
    v = [ev(x, ctr, truth, raises, log, lab) for x in sh[1:]]
    if k == 'add':
        return v[0] + v[1]
    if k == 'sub':
        return v[0] - v[1]
    if k == 'mul':
        if not all(isinstance(x, (D, int, float)) for x in v):
            raise TypeError('non-numbers')
        return D(v[0]) * D(v[1])
    if k == 'div':
        return v[0] / v[1]
    if k == 'pow':
        return D(v[0]) ** D(v[1])
    if k == 'eq':
        return v[0] == v[1]
    if k == 'lt':
        return v[0] < v[1]
    if k == 'gt':
        return v[0] > v[1]
    if k in ('ucall1', 'ucall2', 'umeth1'):
        raise NameError('undefined function')
    if k == 'ge':
        return v[0] >= v[1]
    if k == 'in':
        return v[0] in v[1]
    if k == 'notin':
        return v[0] not in v[1]
    if k == 'neg':
        return -v[0]
    if k == 'not':
        return not v[0]
    if k[:4] in ('call', 'meth', 'pipe'):
        log.append('h')
        return D(7)
    if k.startswith('list'):
        return list(v)
    if k == 'dict1':
        return {kstr(v[0]): v[1]}
    if k == 'dict2':
        return {kstr(v[0]): v[1], kstr(v[2]): v[3]}
    if k == 'idx':
        return v[0][int(v[1])]
    if k == 'sl_ab':
        return v[0][int(v[1]):int(v[2])]
    if k == 'sl_a':
        return v[0][int(v[1]):]
    if k == 'sl_b':
        return v[0][:int(v[1])]
    if k == 'sl_c':
        return v[0][::int(v[1])]
    if k == 'assign':
        return None
    if k == 'short':
        D(1) + v[0]         # x is bound to Decimal(1) by the harness
        return None
    if k == 'shortmul':
        if not isinstance(v[0], (D, int, float)):
            raise TypeError('non-numbers')
        return None
    if k == 'del':
        if len(v[0]) > int(v[1]):
            del v[0][int(v[1])]
        return None
    if k == 'setitem':
        v[0][int(v[1])] = v[2]
        return v[2]
    if k == 'setop':
        v[0][int(v[1])] += v[2]
        return v[2]
    if k == 'setopmul':
        cur = v[0][int(v[1])]
        if not all(isinstance(x, (D, int, float)) for x in (cur, v[2])):
            raise TypeError('non-numbers')
        v[0][int(v[1])] = D(cur) * D(v[2])
        return v[2]
    if k in ('expr', 'exprC'):
        return v[0]
    raise ValueError(k)


def kstr(v):
    if isinstance(v, (list, dict)):
        return str(v)   # never compared: dict keys of containers only differ in Decimal repr
    return str(v)


_parser = None


def parser():
    global _parser
    if _parser is None:
        from smartquery import SqParser
        _parser = SqParser()
    return _parser


def same_type(a, b):
    return type(a) is type(b) or (isinstance(a, D) and isinstance(b, D))


def loose_equal(a, b):
    """equal values of the same type class; dict keys made from containers are not compared textually"""
    if isinstance(a, dict) and isinstance(b, dict):
        return len(a) == len(b) and all(loose_equal(x, y) for x, y in zip(a.values(), b.values()))
    if isinstance(a, list) and isinstance(b, list):
        return len(a) == len(b) and all(loose_equal(x, y) for x, y in zip(a, b))
    return a == b and same_type(a, b)


def bool_positions(sh, ctr, out):
    if sh[0] == 'P':
        if sh[1] == 'N':
            out.append(ctr[0])
        ctr[0] += 1
        return
    for x in sh[1:]:
        bool_positions(x, ctr, out)


_cached = None


def cached_parser():
    """a parser with a parse cache: the same tree is evaluated again under every other truth assignment"""
    global _cached
    if _cached is None or len(_cached.parse_cache) > 5000:
        from smartquery import SqParser
        _cached = SqParser(parse_cache={})
    return _cached


def run_one(sh, truth, raises, labmode='distinct', cached=False):
    """-> (failure message or None, src); labmode: how leaf positions map to probe labels (identical sub-expressions!)"""
    lab = None if labmode == 'distinct' else LABELS[labmode]
    src = render(sh, [0], lab)
    log = []

    def mk(typ):
        def f(i):
            i = int(i)
            log.append(i)
            if i == raises:
                raise RAISE_CLASSES[(raises + len(src)) % len(RAISE_CLASSES)]()
            return probe_value(i, typ, truth)
        return f

    def h(*a):
        log.append('h')
        return D(7)

    names = {'t': mk('N'), 'tc': mk('C'), 'ti': mk('I'), 'h': h, 'x': D(1)}
    try:
        got = (cached_parser() if cached else parser()).eval(src, names, max_ops_evaluated=10 ** 6)
        res = 'ok'
    except Raise:
        res, got = 'raise', None
    except Exception as e:  # noqa
        res, got = 'exc:' + type(e).__name__, None
    elog = []
    try:
        exp = ev(sh, [0], truth, raises, elog, lab)
        eres = 'ok'
    except Raise:
        eres, exp = 'raise', None
    except Exception as e:  # noqa
        eres, exp = 'exc:' + type(e).__name__, None
    if log != elog:
        return f'{src}: probe log {log}, expected {elog} (truth {truth}, raising probe {raises})' + (' on a parser with a parse cache' if cached else ''), src
    if res.startswith('exc') or eres.startswith('exc'):
        if res.startswith('exc') != eres.startswith('exc') and 'raise' not in (res, eres):
            return f'{src}: outcome {res}, expected {eres} (truth {truth})', src
        return None, src
    if res != eres:
        return f'{src}: outcome {res}, expected {eres} (truth {truth}, raising probe {raises})', src
    if res == 'ok' and not loose_equal(got, exp):
        return f'{src}: value {got!r}, expected {exp!r} (truth {truth})', src
    return None, src


def signature(sh):
    """statement kind + the set of node kinds: stable enough to group one root cause"""
    kinds = set()

    def walk(s):
        if s[0] != 'P':
            kinds.add(s[0])
            for x in s[1:]:
                walk(x)
    walk(sh)
    return 'order:' + '+'.join(sorted(kinds))


def to_tuple(x):
    return tuple(to_tuple(y) if isinstance(y, list) else y for y in x)


def run_case(case):
    sh = to_tuple(case['shape'])
    truth = {int(k): v for k, v in case['truth'].items()}
    msg, src = run_one(sh, truth, case['raises'], case.get('labels', 'distinct'), case.get('cached', False))
    if case.get('cached') and not msg:
        # the tree of this text is in the cache now: evaluate it once more with the truth values flipped
        msg, src = run_one(sh, {k: not v for k, v in truth.items()}, case['raises'], case.get('labels', 'distinct'), True)
    return [Failure(signature(sh), msg, case)] if msg else []


def all_cases(sh, raising=True):
    bp = []
    bool_positions(sh, [0], bp)
    nprobe = count(sh)
    for bits in itertools.product([True, False], repeat=len(bp)):
        truth = dict(zip(bp, bits))
        for raises in ([None] + list(range(nprobe)) if raising else [None]):
            yield truth, raises, nprobe


def jobs(tier, seed):
    js = []
    nsh = 16
    for i in range(nsh):
        js.append(('enum', [0, 1, 2], i, nsh, None))
    if tier != 'quick':
        # 3-node shapes (1.5 million): every 7th one, under all truth assignments (raising probes for those at a multiple of 8)
        for i in range(nsh):
            js.append(('enum', [3], i, nsh, 7))
    per = 600 if tier == 'quick' else 8000
    for i in range(nsh):
        js.append(('random', core.derive_seed(seed, 'c09', i), per))
    return js


def run_job(job):
    st = Stats()
    if job[0] == 'enum':
        _, sizes, shard, nsh, stride = job
        for n in sizes:
            for idx, sh in enumerate(stmts(n)):
                if stride is not None:
                    if idx % stride != 0 or (idx // stride) % nsh != shard:
                        continue
                elif idx % nsh != shard:
                    continue
                lazy = has_lazy(sh)
                # 3-node shapes: every truth assignment; the raising-probe dimension for one shape in eight
                for truth, raises, nprobe in all_cases(sh, raising=(n < 3 or idx % 8 == 0)):
                    msg, src = run_one(sh, truth, raises)
                    nt = (nprobe >= 2 and lazy) or nprobe >= 3
                    st.case(nontrivial=nt, distinct_by_construction=True,
                            classes=(f'enum:{n}-nodes' + (':sampled' if stride else ''),),
                            sample={'src': src, 'truth': {str(k): v for k, v in truth.items()}, 'raises': raises}
                            if nt and st.evaluations % 20011 == 0 else None)
                    if msg:
                        st.fail(Failure(signature(sh), msg, {'shape': sh, 'truth': {str(k): v for k, v in truth.items()}, 'raises': raises}))
                    elif raises is None:
                        # once more on the parser with a parse cache (its tree was, or will be, evaluated under the other assignments)
                        msg, src = run_one(sh, truth, None, cached=True)
                        st.case(nontrivial=nt, distinct_by_construction=True, classes=(f'enum:{n}-nodes:cached-tree',), sample=None)
                        if msg:
                            st.fail(Failure('cached:' + signature(sh), msg, {'shape': sh, 'truth': {str(k): v for k, v in truth.items()},
                                                                             'raises': None, 'cached': True}))
                # identical sub-expressions: all probes share one label / alternate between two labels (no raising probe)
                if count(sh) >= 2 and (n < 3 or idx % 8 == 0):
                    for labmode, nlab in (('same', 1), ('mod2', 2)):
                        for bits in itertools.product([True, False], repeat=nlab):
                            truth = dict(enumerate(bits))
                            msg, src = run_one(sh, truth, None, labmode)
                            st.case(nontrivial=True, distinct_by_construction=True, classes=(f'enum:{n}-nodes:labels-{labmode}',),
                                    sample={'src': src, 'truth': {str(k): v for k, v in truth.items()}, 'labels': labmode}
                                    if st.evaluations % 20011 == 0 else None)
                            if msg:
                                st.fail(Failure(signature(sh), msg, {'shape': sh, 'truth': {str(k): v for k, v in truth.items()},
                                                                     'raises': None, 'labels': labmode}))
        return st
    _, seed, n = job

    @hst.composite
    def big_cases(draw):
        k = lambda m: draw(hst.integers(0, m - 1))  # noqa
        by_type = {t: [x for x in KINDS if x[1] == t] for t in ('N', 'C')}

        def g(t, budget):
            if t == 'I' or budget <= 0 or k(5) == 0:
                return ('P', t)
            name, _, cts = by_type[t][k(len(by_type[t]))]
            return (name,) + tuple(g(ct, budget - 1) for ct in cts)

        sname, cts = STMTS[k(len(STMTS))]
        sh = (sname,) + tuple(g(ct, 2 + k(3)) for ct in cts)
        nprobe = count(sh)
        bp = []
        bool_positions(sh, [0], bp)
        truth = {p: bool(k(2)) for p in bp}
        raises = None if k(3) else k(max(1, nprobe))
        return sh, truth, raises

    def check(c):
        sh, truth, raises = c
        nn = nodes(sh) - 1
        if nn <= 3 or count(sh) > 40:
            return hyp.Result(discard=True)
        msg, src = run_one(sh, truth, raises)
        case = {'shape': sh, 'truth': {str(a): b for a, b in truth.items()}, 'raises': raises}
        fails = [Failure(signature(sh), msg, case)] if msg else []
        return hyp.Result(fails, True, ['random:4+nodes'], key=src + repr(sorted(truth.items())) + repr(raises),
                          sample={'src': src, 'raises': raises})

    hyp.drive(big_cases(), check, st, seed=seed, max_examples=n)
    return st


def finish(stats, tier):
    out = {'exhaustive': True,
           'exhaustive_bound': 'all statement shapes with <= 2 internal nodes under the statement x all truth assignments x every single '
                               'raising probe or none (and again on a cached tree without raising probes)',
           'statement_shapes': {str(n): sum(1 for _ in stmts(n)) for n in range(0, 3)}}
    if tier != 'quick':
        out['sampled_beyond_the_bound'] = 'every 7th of the 3-node statement shapes x all truth assignments (raising probes for one in eight of those); Hypothesis shapes with 4+ nodes'
    return out
