"""C15 - insignificant surface syntax never changes the parsed program.

Programs are rendered canonically, then rewritten at tree level (call style r.f(a) / r | f(a) / f(r, a), trailing commas,
redundant parentheses) and at token-gap level (spaces/tabs, comments, line breaks and CRLF inside brackets, ; <-> newline,
blank statements, CRLF).  Oracle: parse(original) and parse(rewritten) are structurally equal.
"""
from hypothesis import strategies as hst

from sqv import core, hyp
from sqv.core import Failure, Stats
from sqv.gen import rewrites, sentences, typed
from sqv.spec import reflex, refparse, unparse
from sqv.spec.neutral import neutral, same_tree

ID = 'C15'
LEVEL = 'exploration'
RULE = ('Hypothesis programs (random grammar sentences and typed programs, 1-4 statements) x a random non-empty subset of '
        'rewrites applied at random applicable positions: extra spaces/tabs in token gaps; comments before line ends, at the '
        'end and inside brackets; LF/CRLF line breaks in any gap at bracket depth > 0; ; <-> newline between statements; '
        'blank statements (leading, between, trailing); CRLF for LF; trailing comma after the last argument/element/entry of '
        'every call, method call, pipe call, list and dict of arity >= 1; 1-3 pairs of redundant parentheses around any '
        'sub-expression; conversion among r.f(a), r | f(a), f(r, a). Thorough additionally applies each rewrite kind at every '
        'applicable position one at a time. Oracle: the implementation parses original and rewritten text to equal trees; '
        'the frozen reference parser certifies the rewrite is meaning-preserving (harness self-check). Non-trivial: >= 2 '
        'rewrites of different kinds, a trailing comma on arity >= 2, or a rewrite inside a nested bracket.')
ASSUMPTIONS = ['redundant parentheses are not put around assignment targets or parameter names (not sub-expressions)',
               'a comment locks the newline that ends it (turning it into ; would comment out the next statement)']

_parser = None


def parser():
    global _parser
    if _parser is None:
        from smartquery import SqParser
        _parser = SqParser()
    return _parser


POISON = ['f(1, ', 'x = 1)', '[[', '{"a": (', 'a]]', '"unterminated', 'x = (\n1,\n']


def poison(i):
    """an earlier rejected call on the same parser: the trees of later texts must not depend on it"""
    try:
        parser().parse(POISON[i % len(POISON)])
    except Exception:  # noqa
        pass


def impl_tree(text):
    try:
        return 'ok', neutral(parser().parse(text))
    except RecursionError:
        return 'recursion', None
    except Exception as e:  # noqa
        return 'rejected', f'{type(e).__name__}: {e}'


def render(stmts):
    return '\n'.join(unparse.minimal_stmt(s) for s in stmts)


def judge(text0, text1, want, case, applied):
    """-> (failures, info). `want` = clean reference tree both texts must parse to"""
    info = {'discard': False}
    for t in (text0, text1):
        try:
            ref = refparse.parse([(k.kind, k.value) for k in reflex.lex(t)])
        except (refparse.Rej, reflex.LexError) as e:
            raise core.HarnessError(f'rewrite self-check: reference rejects {t!r} ({e})')
        if not same_tree(ref, want):
            raise core.HarnessError(f'rewrite self-check: {t!r} means {ref!r}, expected {want!r}')
    k0, t0 = impl_tree(text0)
    k1, t1 = impl_tree(text1)
    if 'recursion' in (k0, k1):
        info['discard'] = True
        return [], info
    fails = []
    if k0 != 'ok':
        # the canonical rendering itself is rejected / mis-parsed: C06's business, not a rewrite effect
        info['discard'] = True
        return [], info
    if k1 != 'ok':
        fails.append(('rejected', f'original {text0!r} parses, rewritten {text1!r} is rejected: {t1}'))
    elif not same_tree(t0, t1):
        fails.append(('tree', f'original {text0!r} -> {t0!r}; rewritten {text1!r} -> {t1!r}'))
    return fails, info


def diagnose(stmts, applied_kinds, want, case):
    """signature = the first rewrite kind that breaks the program when applied alone, at any single position"""
    text0 = render(stmts)
    for kind in sorted(set(applied_kinds)):
        for target in range(0, 60):
            ch = rewrites.Scripted(kind, target, variant=target)
            if kind in rewrites.GAP_KINDS:
                text1 = rewrites.gap_rewrite(text0, ch)
            else:
                text1 = render([rewrites.tx_stmt(s, ch) for s in stmts])
            if not ch.applied:
                break
            try:
                f, _ = judge(text0, text1, want, case, [kind])
            except core.HarnessError:
                continue
            if f:
                return kind
    return 'combination:' + '+'.join(sorted(set(applied_kinds)))


def check_program(stmts, ch_tree, ch_gap, case):
    want = ('Code', [unparse.clean(s) for s in stmts])
    text0 = render(stmts)
    stmts1 = [rewrites.tx_stmt(s, ch_tree) for s in stmts]
    text1 = render(stmts1)
    text1 = rewrites.gap_rewrite(text1, ch_gap)
    applied = ch_tree.applied + ch_gap.applied
    if not applied:
        return [], {'discard': True}, applied, text0, text1
    raw, info = judge(text0, text1, want, case, applied)
    fails = []
    if raw:
        kind = diagnose(stmts, applied, want, case)
        for tag, msg in raw:
            fails.append(Failure(f'rewrite:{kind}:{tag}', msg[:1400], {'text0': text0, 'text1': text1, 'applied': sorted(set(applied))}))
    return fails, info, applied, text0, text1


def run_case(case):
    """replay: two texts that must parse to the same tree"""
    k0, t0 = impl_tree(case['text0'])
    k1, t1 = impl_tree(case['text1'])
    if k0 != 'ok':
        return [Failure('rewrite:replay:original-rejected', f'{case["text0"]!r}: {t0}', case)]
    if k1 != 'ok':
        return [Failure('rewrite:replay:rejected', f'{case["text1"]!r} rejected: {t1}', case)]
    if not same_tree(t0, t1):
        return [Failure('rewrite:replay:tree', f'{case["text0"]!r} -> {t0!r}; {case["text1"]!r} -> {t1!r}', case)]
    return []


def nested_bracket(text1):
    try:
        return any(t.depth >= 2 for t in reflex.lex(text1))
    except reflex.LexError:
        return False


@hst.composite
def cases(draw):
    pick_typed = draw(hst.integers(0, 2)) == 0
    if pick_typed:
        stmts, _env, _labels = draw(typed.programs(max_stmts=3, max_depth=3))
    else:
        stmts = draw(sentences.programs(max_depth=4, max_stmts=3))
    ch_tree = rewrites.Drawn(draw, hst, odds=draw(hst.sampled_from([3, 6, 12])))
    ch_gap = rewrites.Drawn(draw, hst, odds=draw(hst.sampled_from([4, 10, 30])))
    # the transformation consumes draws lazily: perform it here so that the whole case is one generated value
    want = None
    text0 = render(stmts)
    stmts1 = [rewrites.tx_stmt(s, ch_tree) for s in stmts]
    text1 = rewrites.gap_rewrite(render(stmts1), ch_gap)
    return stmts, ch_tree.applied + ch_gap.applied, text0, text1, draw(hst.integers(0, 60))


def jobs(tier, seed):
    per = 900 if tier == 'quick' else 30000
    js = [('random', core.derive_seed(seed, 'c15', i), per) for i in range(16)]
    if tier == 'thorough':
        js += [('sweep', core.derive_seed(seed, 'c15s', i), 400) for i in range(16)]
    else:
        js += [('sweep', core.derive_seed(seed, 'c15s', i), 12) for i in range(16)]
    return js


def run_job(job):
    kind, seed, n = job
    st = Stats()
    if kind == 'random':
        def check(c):
            stmts, applied, text0, text1, pz = c
            if not applied:
                return hyp.Result(discard=True)
            if pz < len(POISON):
                poison(pz)
                st.add('cases_after_a_rejected_unbalanced_parse')
            want = ('Code', [unparse.clean(s) for s in stmts])
            case = {'text0': text0, 'text1': text1, 'applied': sorted(set(applied))}
            raw, info = judge(text0, text1, want, case, applied)
            if info['discard']:
                return hyp.Result(discard=True)
            fails = []
            if raw:
                k = diagnose(stmts, applied, want, case)
                fails = [Failure(f'rewrite:{k}:{tag}', msg[:1400], case) for tag, msg in raw]
            kinds = set(applied)
            nt = len(kinds) >= 2 or any(a.startswith('comma') and a.endswith('-n') for a in kinds) or nested_bracket(text1)
            return hyp.Result(fails, nt, ['rw:' + a for a in kinds], key=text0 + '\x00' + text1,
                              sample={'original': text0, 'rewritten': text1, 'applied': sorted(kinds)})

        hyp.drive(cases(), check, st, seed=seed, max_examples=n)
        return st

    # every-position sweep: each rewrite kind at every applicable position, one at a time
    @hst.composite
    def progs(draw):
        if draw(hst.integers(0, 1)):
            return draw(typed.programs(max_stmts=2, max_depth=2))[0]
        return draw(sentences.programs(max_depth=3, max_stmts=2))

    def check_sweep(stmts):
        want = ('Code', [unparse.clean(s) for s in stmts])
        text0 = render(stmts)
        fails = []
        count = 0
        for kind_ in rewrites.TREE_KINDS + rewrites.GAP_KINDS:
            for target in range(0, 200):
                ch = rewrites.Scripted(kind_, target, variant=target)
                if kind_ in rewrites.GAP_KINDS:
                    text1 = rewrites.gap_rewrite(text0, ch)
                else:
                    text1 = render([rewrites.tx_stmt(s, ch) for s in stmts])
                if not ch.applied:
                    break
                count += 1
                case = {'text0': text0, 'text1': text1, 'applied': [kind_]}
                raw, info = judge(text0, text1, want, case, [kind_])
                if info['discard']:
                    return hyp.Result(discard=True)
                st.add('single_position_rewrites')
                st.add('sweep:' + kind_)
                for tag, msg in raw:
                    fails.append(Failure(f'rewrite:{kind_}:{tag}', msg[:1400], case))
                if fails:
                    break
            if fails:
                break
        return hyp.Result(fails, count >= 5, ['sweep'], key='sweep:' + text0, sample={'original': text0, 'positions_rewritten': count})

    hyp.drive(progs(), check_sweep, st, seed=seed, max_examples=n)
    return st
