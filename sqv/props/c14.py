"""C14 - lists and dicts behave like their models under any operation sequence.

One list `l` and one dict `d` live in a persistent names mapping; each step is one tiny eval.  Oracle: Python list/dict
model with explicit casts (int() truncation of decimal indices, str() of dict keys).
  (a) exhaustive DFS over a fixed operation alphabet to a depth bound, from an empty and a populated initial state
  (b) Hypothesis RuleBasedStateMachine: random sequences up to 60 steps with generated keys, indices and values
"""
import copy
from decimal import Decimal as D

import hypothesis
from hypothesis import HealthCheck, Phase, settings, strategies as hst
from hypothesis.stateful import RuleBasedStateMachine, rule, run_state_machine_as_test

from sqv import core
from sqv.core import Failure, Stats

ID = 'C14'
LEVEL = 'exploration'
RULE = ('(a) every sequence of operations up to the stated depth over a fixed alphabet of concrete operations (push, pop, pop(i), '
        'insert, remove, read, write, compound write, del, index_of, len, in for the list; read, write, compound write, del, '
        'get, get with default, keys, values, items, len, in, remove for the dict; indices 0, 1, -1, -2, 1.9, -1.5, 5, -7 and '
        'keys "a", "1", 1, 1.0, 1.5, True, None and host-supplied Python ints; empty list / dict literals evaluated repeatedly by a lambda body and by '
        'repeated steps) from an empty state (plain parser) and a populated state (parser with a parse cache: every step text is '
        'parsed once and its tree evaluated again), explored as a DFS (exhaustive; distinct '
        'by construction); (b) a Hypothesis RuleBasedStateMachine with generated values up to 60 steps. After every step: '
        'same observable result as the Python list/dict model with int()/str() casts, ParserError + unchanged container for '
        'missing key / out-of-range read / pop on empty, full container equality. Non-trivial: >= 3 steps with a write '
        'followed by a read/del/get through a differently typed but model-equal key, or a boundary index.')
ASSUMPTIONS = ['failing writes (out-of-range write / compound write, wrong-typed index, del with a bad negative index) may '
               'raise any Exception or be a no-op, as long as the container is unchanged',
               'remove()/in on dicts are only exercised with string keys (the statement lists the normalising paths)']

_parser = {}


def parser(cached=False):
    """cached: a parser with a parse cache - every step text is parsed once and its tree evaluated again and again"""
    if cached not in _parser:
        from smartquery import SqParser
        _parser[cached] = SqParser(parse_cache={}) if cached else SqParser()
    return _parser[cached]


def lit(v):
    if v is None:
        return 'None'
    if v is True:
        return 'True'
    if v is False:
        return 'False'
    if isinstance(v, str):
        return '"%s"' % v
    if isinstance(v, D):
        return str(v) if v >= 0 else '(0-%s)' % str(-v)
    if type(v) is int and 0 <= v <= 3:
        return 'hi%d' % v       # a Python int supplied by the host (what len() and index_of() return, too)
    raise TypeError(v)


def lkey(k):
    return int(k)


def dkey(k):
    return str(k)


def is_dec(v):
    return isinstance(v, D) and not isinstance(v, bool)


class State:
    def __init__(self, L, Dd):
        self.L = copy.deepcopy(L)
        self.D = copy.deepcopy(Dd)
        self.V = [[D(1)]]
        self.names = {'l': copy.deepcopy(L), 'd': copy.deepcopy(Dd), 'v': copy.deepcopy(self.V), 'hi0': 0, 'hi1': 1, 'hi2': 2, 'hi3': 3}
        self.cached = False

    def clone(self):
        s = State.__new__(State)
        s.cached = self.cached
        s.L = copy.deepcopy(self.L)
        s.D = copy.deepcopy(self.D)
        s.names = copy.deepcopy(self.names)
        s.V = copy.deepcopy(self.V)
        return s


def model_step(op, L, Dd, V=None):
    """apply op to the model in place -> (src, exp, experr, flags); exp 'SKIP' = value not compared"""
    name = op[0]
    exp, experr, src = None, None, None
    boundary = False
    if name == 'push':
        v = op[1]
        src = f'l.push({lit(v)})'
        L.append(v)
    elif name == 'pop':
        src = 'l.pop()'
        if not L:
            experr = 'PE'
        else:
            exp = L.pop()
    elif name == 'popi':
        i = op[1]
        src = f'l.pop({lit(i)})'
        boundary = abs(lkey(i)) >= len(L) - 1
        try:
            exp = L.pop(lkey(i))
        except IndexError:
            experr = 'PE' if not L else 'ANY'      # the statement names popping an *empty* list; pop(i) out of range: some error
    elif name == 'insert':
        i, v = op[1], op[2]
        src = f'l.insert({lit(i)}, {lit(v)})'
        L.insert(lkey(i), v)
    elif name == 'removel':
        v = op[1]
        src = f'l.remove({lit(v)})'
        if v in L:
            L.remove(v)
        else:
            experr = 'NOOP_OR_ANY'
    elif name == 'readl':
        i = op[1]
        src = f'l[{lit(i)}]'
        boundary = lkey(i) in (len(L) - 1, len(L), -len(L), -len(L) - 1)
        try:
            exp = L[lkey(i)]
        except IndexError:
            experr = 'PE'
    elif name == 'writel':
        i, v = op[1], op[2]
        src = f'l[{lit(i)}] = {lit(v)}'
        boundary = lkey(i) in (len(L) - 1, len(L), -len(L), -len(L) - 1)
        try:
            L[lkey(i)] = v
            exp = v
        except IndexError:
            experr = 'ANY'
    elif name == 'cwritel':
        i = op[1]
        src = f'l[{lit(i)}] += 1'
        try:
            cur = L[lkey(i)]
            if is_dec(cur) or isinstance(cur, bool):
                L[lkey(i)] = cur + D(1)
                exp = 'SKIP'
            else:
                experr = 'ANY'
        except IndexError:
            experr = 'ANY'
    elif name == 'dell':
        i = op[1]
        src = f'del l[{lit(i)}]'
        kk = lkey(i)
        boundary = kk in (len(L) - 1, len(L), -len(L), -len(L) - 1)
        if -len(L) <= kk < len(L):
            del L[kk]
        else:
            experr = 'NOOP_OR_ANY'         # deleting an out-of-range position: a no-op or some error, nothing changes
    elif name == 'index_of':
        v = op[1]
        src = f'l.index_of({lit(v)})'
        exp = L.index(v) if v in L else None
    elif name == 'lenl':
        src = 'len(l)'
        exp = len(L)
    elif name == 'inl':
        v = op[1]
        src = f'{lit(v)} in l'
        exp = v in L
    elif name == 'readd':
        k = op[1]
        src = f'd[{lit(k)}]'
        if dkey(k) in Dd:
            exp = Dd[dkey(k)]
        else:
            experr = 'PE'
    elif name == 'writed':
        k, v = op[1], op[2]
        src = f'd[{lit(k)}] = {lit(v)}'
        Dd[dkey(k)] = v
        exp = v
    elif name == 'cwrited':
        k = op[1]
        src = f'd[{lit(k)}] += 1'
        cur = Dd.get(dkey(k), 'MISSING')
        if is_dec(cur) or isinstance(cur, bool):
            Dd[dkey(k)] = cur + D(1)
            exp = 'SKIP'
        else:
            experr = 'ANY'
    elif name == 'deld':
        k = op[1]
        src = f'del d[{lit(k)}]'
        if dkey(k) in Dd:
            Dd.pop(dkey(k))
        else:
            experr = 'NOOP_OR_ANY'
    elif name == 'get':
        k = op[1]
        src = f'd.get({lit(k)})'
        exp = Dd.get(dkey(k))
    elif name == 'getd':
        k, v = op[1], op[2]
        src = f'd.get({lit(k)}, {lit(v)})'
        exp = Dd.get(dkey(k), v)
    elif name == 'keys':
        src = 'keys(d)'
        exp = list(Dd.keys())
    elif name == 'values':
        src = 'values(d)'
        exp = list(Dd.values())
    elif name == 'items':
        src = 'items(d)'
        exp = list(Dd.items())
    elif name == 'lend':
        src = 'len(d)'
        exp = len(Dd)
    elif name == 'ind':
        k = op[1]
        src = f'{lit(k)} in d'
        exp = k in Dd
    elif name == 'removed':
        k = op[1]
        src = f'd.remove({lit(k)})'
        if k in Dd:
            Dd.pop(k)
        else:
            experr = 'NOOP_OR_ANY'
    elif name == 'nestw':
        # d[k] = v (v = [[1, ...]] lives in names), then v is mutated through its own name, then d[k] is read
        k = op[1]
        src = f'd[{lit(k)}] = v\nv[0].push(7)\nd[{lit(k)}]'
        Dd[dkey(k)] = copy.deepcopy(V)
        V[0].append(D(7))
        exp = copy.deepcopy(Dd[dkey(k)])
    elif name == 'nestl':
        src = 'l.push(0)\nl[0 - 1] = v\nv[0].push(7)\nl[0 - 1]'
        L.append(copy.deepcopy(V))
        V[0].append(D(7))
        exp = copy.deepcopy(L[-1])
    elif name == 'freshl':
        # every evaluation of a literal yields a new container
        src = 'm = map([1, 2], q => [])\nm[0].push(7)\nm'
        exp = [[D(7)], []]
    elif name == 'freshd':
        src = 'm = map([1, 2], q => {})\nm[0]["k"] = 1\nm'
        exp = [{'k': D(1)}, {}]
    elif name == 'rows':
        src = 'l.push([])\nl[0 - 1].push(7)\nl[0 - 1]'
        L.append([D(7)])
        exp = [D(7)]
    elif name == 'sortd':
        src = 'd = sorted(d)'
        items = sorted(Dd.items())
        Dd.clear()
        Dd.update(items)
    elif name == 'copyd':
        src = 'd = dict(d)'
    elif name == 'dictlit':
        k, v = op[1], op[2]
        src = f'd = {{{lit(k)}: {lit(v)}, "zz": 0}}'
        Dd.clear()
        Dd[dkey(k)] = v
        Dd['zz'] = D(0)
    else:
        raise ValueError(name)
    return src, exp, experr, boundary


def same_value(got, exp):
    if isinstance(exp, (list, tuple)) and isinstance(got, (list, tuple)):
        return type(got) is type(exp) and len(got) == len(exp) and all(same_value(a, b) for a, b in zip(got, exp))
    if isinstance(exp, bool) or isinstance(got, bool):
        return type(got) is type(exp) and got == exp
    if isinstance(exp, D) and isinstance(got, D):
        return got == exp
    if isinstance(exp, int) and isinstance(got, int):
        return got == exp
    return type(got) is type(exp) and got == exp


def same_container(a, b):
    if isinstance(a, dict):
        return isinstance(b, dict) and list(a.keys()) == list(b.keys()) and all(same_value(a[k], b[k]) for k in a)
    return isinstance(b, list) and len(a) == len(b) and all(same_value(x, y) for x, y in zip(a, b))


def do_step(st, op):
    """apply one operation to implementation and model; -> (failure message or None, src, boundary)"""
    from smartquery import ParserError
    L0, D0 = copy.deepcopy(st.L), copy.deepcopy(st.D)
    src, exp, experr, boundary = model_step(op, st.L, st.D, st.V)
    got, goterr = None, None
    try:
        got = parser(st.cached).eval(src, st.names)
    except ParserError:
        goterr = 'PE'
    except Exception as e:  # noqa
        goterr = 'OTHER:' + type(e).__name__
    nl, nd = st.names.get('l'), st.names.get('d')
    msg = None
    if experr == 'PE':
        st.L, st.D = L0, D0
        if goterr != 'PE':
            msg = f'expected ParserError, got {goterr or repr(got)}'
    elif experr == 'ANY':
        st.L, st.D = L0, D0
        if goterr is None:
            msg = f'expected an error, got {got!r}'
    elif experr in ('NOOP_OR_ANY', 'NOOP'):
        st.L, st.D = L0, D0
        if experr == 'NOOP' and goterr is not None:
            msg = f'expected a no-op, got {goterr}'
    else:
        if goterr is not None:
            msg = f'expected {exp!r}, got {goterr}'
        elif exp != 'SKIP' and not same_value(got, exp):
            msg = f'expected {exp!r}, got {got!r}'
    if msg is None and not (same_container(st.L, nl) and same_container(st.D, nd)):
        msg = f'containers differ from the model: l={nl!r} (model {st.L!r}), d={nd!r} (model {st.D!r})'
    return (f'step {src!r}: {msg}' if msg else None), src, boundary


# alphabet for the exhaustive part
VALS = [D(1), 'x', None, True]
ALPHABET = (
    [('push', D(1)), ('push', 'x'), ('pop',), ('popi', D(0)), ('popi', D(-1)), ('popi', D(5)),
     ('insert', D(0), D(2)), ('insert', D('1.9'), 'x'), ('insert', D(-7), None), ('removel', D(1)),
     ('readl', D(0)), ('readl', D(-1)), ('readl', D('1.9')), ('readl', D(5)), ('readl', D(-2)),
     ('writel', D(0), D(2)), ('writel', D(-1), 'x'), ('writel', D(5), D(1)), ('cwritel', D(0)),
     ('dell', D(0)), ('dell', D(-1)), ('dell', D(5)), ('dell', D(-2)), ('dell', D('-1.5')),
     ('index_of', D(1)), ('lenl',), ('inl', D(1)),
     ('writed', 'a', D(1)), ('writed', D(1), D(2)), ('writed', D('1.0'), 'x'), ('writed', True, D(3)), ('writed', None, D(4)),
     ('readd', 'a'), ('readd', D(1)), ('readd', '1'), ('readd', D('1.0')), ('readd', True), ('readd', 'None'),
     ('deld', 'a'), ('deld', D(1)), ('deld', D('1.0')), ('get', D(1)), ('getd', 'zz', D(2)), ('get', True),
     ('keys',), ('values',), ('items',), ('lend',), ('cwrited', 'a'), ('cwrited', D(1)), ('ind', 'a'), ('ind', '1'),
     ('removed', '1'), ('dictlit', D(1), D(5)), ('dictlit', D('1.0'), D(6)), ('nestw', 'n'), ('nestl',), ('sortd',), ('copyd',), ('freshl',), ('freshd',), ('rows',),
     ('writed', 1, D(7)), ('readd', 1), ('deld', 1), ('get', 2), ('writel', 0, D(3)), ('readl', 1), ('cwrited', 1), ('dictlit', 2, D(8))]
)
INITS = [([], {}), ([D(1), 'x'], {'a': D(1), '1': D(2)})]


def enc_op(op):
    return core.enc(list(op))


def dec_op(o):
    return tuple(core.dec(o))


def signature(op, msg):
    return f'{op[0]}' + (':' + type(op[1]).__name__ if len(op) > 1 else '')


def run_case(case):
    L, Dd = core.dec(case['init'][0]), core.dec(case['init'][1])
    st = State(L, Dd)
    st.cached = bool(case.get('cached'))
    _parser.clear()
    for o in case['ops']:
        op = dec_op(o)
        msg, src, _ = do_step(st, op)
        if msg:
            return [Failure(signature(op, msg), msg, case)]
    return []


def interesting_seq(ops):
    """a write followed by a read/del/get through a differently typed but model-equal key, or a boundary index"""
    seen = {}
    for op in ops:
        if op[0] in ('writed', 'dictlit'):
            seen[dkey(op[1])] = type(op[1])
        elif op[0] in ('readd', 'deld', 'get', 'getd', 'cwrited') and dkey(op[1]) in seen and seen[dkey(op[1])] is not type(op[1]):
            return True
    return False


def dfs(st, depth, prefix, init, stats, first_ops=None):
    ops = ALPHABET if first_ops is None else first_ops
    for op in ops:
        s2 = st.clone()
        msg, src, boundary = do_step(s2, op)
        seq = prefix + [op]
        nt = len(seq) >= 3 and (interesting_seq(seq) or boundary)
        stats.case(nontrivial=nt, distinct_by_construction=True, classes=(f'dfs:depth{len(seq)}',),
                   sample={'init': core.enc(list(init)), 'ops': [str(o) for o in seq]} if nt and stats.evaluations % 9973 == 0 else None)
        if msg:
            stats.fail(Failure(signature(op, msg), msg, {'init': core.enc(list(init)), 'ops': [enc_op(o) for o in seq], 'cached': st.cached}))
            continue
        if depth > 1:
            dfs(s2, depth - 1, seq, init, stats)


# ------------------------------------------------------------------------------------------------ stateful part
IDX = [D(0), D(1), D(2), D(-1), D(-2), D('1.9'), D('-1.5'), D(5), D(-7), D('0.5'), D(3), D(-3), 0, 1, 2]
KEYS = ['a', 'b', '1', D(1), D('1.0'), D('1.5'), True, None, 'True', 'None', D(-1), '1.0', False, D(0), '0', 0, 1, 2, '2']
SVALS = [D(1), D(2), 'x', None, True, D('2.50'), D(0), '', False]
_CTX = {'excluded': [], 'last': None, 'stats': None}


class ContainerMachine(RuleBasedStateMachine):
    def __init__(self):
        super().__init__()
        self.init = ([], {})
        self.st = State([], {})
        _CTX['machines'] = _CTX.get('machines', 0) + 1
        self.st.cached = _CTX['machines'] % 2 == 1
        self.ops = []

    def step(self, op):
        self.ops.append(op)
        msg, src, boundary = do_step(self.st, op)
        stats = _CTX['stats']
        stats.add('machine_steps')
        if msg:
            sig = signature(op, msg)
            f = Failure(sig, msg, {'init': core.enc([[], {}]), 'ops': [enc_op(o) for o in self.ops], 'cached': self.st.cached})
            stats.fail(f)
            if not any(core.sig_matches(p, sig) for p in _CTX['excluded']):
                if _CTX['target'] is None:
                    _CTX['target'] = sig
                if sig == _CTX['target']:
                    _CTX['last'] = f
                    raise AssertionError(msg)
            # a step that disagreed leaves the two worlds out of sync: resynchronise the model from the implementation
            self.st.L = copy.deepcopy(self.st.names.get('l', []))
            self.st.D = copy.deepcopy(self.st.names.get('d', {}))

    @rule(v=hst.sampled_from(SVALS))
    def push(self, v):
        self.step(('push', v))

    @rule()
    def pop(self):
        self.step(('pop',))

    @rule(i=hst.sampled_from(IDX))
    def popi(self, i):
        self.step(('popi', i))

    @rule(i=hst.sampled_from(IDX), v=hst.sampled_from(SVALS))
    def insert(self, i, v):
        self.step(('insert', i, v))

    @rule(v=hst.sampled_from(SVALS))
    def removel(self, v):
        self.step(('removel', v))

    @rule(i=hst.sampled_from(IDX))
    def readl(self, i):
        self.step(('readl', i))

    @rule(i=hst.sampled_from(IDX), v=hst.sampled_from(SVALS))
    def writel(self, i, v):
        self.step(('writel', i, v))

    @rule(i=hst.sampled_from(IDX))
    def cwritel(self, i):
        self.step(('cwritel', i))

    @rule(i=hst.sampled_from(IDX))
    def dell(self, i):
        self.step(('dell', i))

    @rule(v=hst.sampled_from(SVALS))
    def index_of(self, v):
        self.step(('index_of', v))

    @rule(v=hst.sampled_from(SVALS))
    def inl(self, v):
        self.step(('inl', v))

    @rule()
    def lens(self):
        self.step(('lenl',))
        self.step(('lend',))

    @rule(k=hst.sampled_from(KEYS))
    def readd(self, k):
        self.step(('readd', k))

    @rule(k=hst.sampled_from(KEYS), v=hst.sampled_from(SVALS))
    def writed(self, k, v):
        self.step(('writed', k, v))

    @rule(k=hst.sampled_from(KEYS))
    def cwrited(self, k):
        self.step(('cwrited', k))

    @rule(k=hst.sampled_from(KEYS))
    def deld(self, k):
        self.step(('deld', k))

    @rule(k=hst.sampled_from(KEYS))
    def get(self, k):
        self.step(('get', k))

    @rule(k=hst.sampled_from(KEYS), v=hst.sampled_from(SVALS))
    def getd(self, k, v):
        self.step(('getd', k, v))

    @rule()
    def views(self):
        self.step(('keys',))
        self.step(('values',))
        self.step(('items',))

    @rule(k=hst.sampled_from([k for k in KEYS if isinstance(k, str)]))
    def ind(self, k):
        self.step(('ind', k))

    @rule(k=hst.sampled_from([k for k in KEYS if isinstance(k, str)]))
    def removed(self, k):
        self.step(('removed', k))

    @rule(k=hst.sampled_from(['n', 'a', D(1)]))
    def nestw(self, k):
        self.step(('nestw', k))

    @rule()
    def nestl(self):
        self.step(('nestl',))

    @rule(k=hst.sampled_from(['freshl', 'freshd', 'rows']))
    def fresh(self, k):
        self.step((k,))

    @rule()
    def sortd(self):
        self.step(('sortd',))

    @rule()
    def copyd(self):
        self.step(('copyd',))

    @rule(k=hst.sampled_from(KEYS), v=hst.sampled_from(SVALS))
    def dictlit(self, k, v):
        self.step(('dictlit', k, v))

    def teardown(self):
        stats = _CTX['stats']
        stats.case(key='m:' + repr(self.ops), nontrivial=len(self.ops) >= 3 and interesting_seq(self.ops), classes=('machine',),
                   sample={'ops': [str(o) for o in self.ops][:25]})


def run_machine(seed, n_examples, steps, stats):
    _CTX['stats'] = stats
    _CTX['excluded'] = []
    for rnd in range(4):
        _CTX['last'] = None
        _CTX['target'] = None
        try:
            run_state_machine_as_test(
                hypothesis.seed(core.derive_seed(seed, 'machine', rnd))(ContainerMachine),
                settings=settings(max_examples=n_examples, stateful_step_count=steps, deadline=None, database=None,
                                  derandomize=False, report_multiple_bugs=False, print_blob=False,
                                  phases=[Phase.generate, Phase.shrink], suppress_health_check=list(HealthCheck)))
        except BaseException as e:  # noqa
            if _CTX['last'] is None:
                raise core.HarnessError(f'state machine raised {type(e).__name__}: {e}')
        if _CTX['last'] is None:
            break
        stats.fail(_CTX['last'])
        _CTX['excluded'].append(_CTX['target'])


def jobs(tier, seed):
    depth = 3 if tier == 'quick' else 4
    js = []
    for init_i in range(len(INITS)):
        for k in range(len(ALPHABET)):
            js.append(('dfs', init_i, k, depth))
    n = 40 if tier == 'quick' else 1500
    for i in range(16):
        js.append(('machine', core.derive_seed(seed, 'c14', i), n, 60))
    return js


def run_job(job):
    st = Stats()
    if job[0] == 'dfs':
        _, init_i, k, depth = job
        L, Dd = INITS[init_i]
        st0 = State(L, Dd)
        st0.cached = init_i == 1        # the non-empty initial state runs on the parser with a parse cache
        dfs(st0, depth, [], INITS[init_i], st, first_ops=[ALPHABET[k]])
        return st
    _, seed, n, steps = job
    run_machine(seed, n, steps, st)
    return st


def finish(stats, tier):
    depth = 3 if tier == 'quick' else 4
    return {'exhaustive': True,
            'exhaustive_bound': f'all operation sequences of length <= {depth} over an alphabet of {len(ALPHABET)} concrete operations, '
                                f'from {len(INITS)} initial states; random state-machine sequences beyond that'}
