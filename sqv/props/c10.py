"""C10 - scoping: innermost-first lookup, host write-back, no leaking lambda scopes.

Differential against the reference scope model (sqv/spec/refsem.py) on programs where identifiers are bound at one, two
or three levels, plus direct invariants: the builtin table is untouched; host-invoked lambdas leave no bindings behind;
a lambda carried to another names mapping resolves free names there.
"""
import copy
from decimal import Decimal as D

from hypothesis import strategies as hst

from sqv import core, hyp
from sqv.core import Failure, Stats
from sqv.spec import refparse, refsem
from sqv.spec.neutral import neutral
from sqv.values import canon

ID = 'C10'
LEVEL = 'exploration'
RULE = ('Hypothesis programs (1-6 statements) over the identifiers len, sum, x, y, k bound as builtin, host/top-level name '
        'and lambda parameter/local at once; nested and re-entrant lambda calls through call(), map, sorted, reduce; calls '
        'that raise inside map/filter/reduce and under a swallowing host safe() after which the program continues; '
        'statement-bodied lambdas through ast_names (assignment and compound assignment in a call; with one parameter or none, '
        'called at top level, from a lambda, from map and from a host callback); tiny host mappings '
        'equal to a parameter binding; evals without a names mapping; lambdas carried into a second names mapping; host '
        'invocation of program lambdas after eval. Oracle: reference scope model (value, error class, final names) + the '
        'builtin table keeps the same keys and identical values + no parameter/local leaks. Non-trivial: a name bound at '
        '>= 2 levels is read after a call that bound it, or a call raised and evaluation continued; distinct by program.')
ASSUMPTIONS = ['known finding D15: compound assignment to an outer *list* inside a statement-bodied (ast_names) lambda '
               'mutates the outer object in place; generated bodies apply compound assignment to outer numbers/strings only '
               '(excluded shapes counted), one fixed witness prints the KNOWN-FINDING line']

NAMES = ['len', 'x', 'y', 'sum', 'k']
AST_BODIES = ['t = a + 1\nx = t\nx', 'k = a\nk', 'y = [a]\ny', 'x += a\nx', 'k += "z"\nk', 'len = a\nlen + 1', 'x = a\nx += 1\nx']
_parser = None


def parser():
    global _parser
    if _parser is None:
        from smartquery import SqParser
        _parser = SqParser()
    return _parser


def hosts():
    def call(f, *a):
        return f(*a)

    def safe(f, *a):
        try:
            return f(*a)
        except Exception:  # noqa
            return 'ERR'
    return {'call': call, 'safe': safe}


def cnames(names):
    return [(k, canon(v)) for k, v in names.items()]


def eval_impl(src, names, ast_body, use_names=True):
    from smartquery import ParserError
    p = parser()
    ast_i = None
    if ast_body:
        from smartquery.ast_ops import LambdaOp, NameOp
        ast_i = {'h': LambdaOp([], p.parse(ast_body[2:])) if ast_body.startswith('0:') else LambdaOp([NameOp('a')], p.parse(ast_body))}
    try:
        if use_names:
            return 'value', p.eval(src, names, ast_names=ast_i, max_ops_evaluated=10 ** 6), None
        return 'value', p.eval(src, ast_names=ast_i, max_ops_evaluated=10 ** 6), None
    except ParserError as e:
        return 'lang', None, e
    except RecursionError as e:
        return 'recursion', None, e
    except Exception as e:  # noqa
        return 'other', None, e


def eval_ref(src, names, ast_body):
    p = parser()
    tree = refparse.parse_text(src)       # not the implementation's own tree
    ast_r = None
    if ast_body:
        # '0:' marks a function without parameters, called as h()
        ast_r = {'h': ('Lambda', [], refparse.parse_text(ast_body[2:])) if ast_body.startswith('0:') else ('Lambda', [('Name', 'a')], refparse.parse_text(ast_body))}
    out, _ = refsem.run(tree, names, ast_names=ast_r)
    return out


def compare(tag, out, gk, got, ge, renv, ienv):
    if out[0] == 'unspec':
        return None
    if out[0] in ('any', 'other'):
        if gk == 'value':
            return 'class:error-expected', f'{tag}: reference expects an error, implementation returned {got!r}'
    elif out[0] != gk:
        return f'class:{out[0]}-vs-{gk}', f'{tag}: reference {out[0]}' + (f' {out[1]!r}' if out[0] == 'value' else '') + \
            f', implementation {gk} ' + (repr(got) if gk == 'value' else f'{type(ge).__name__}: {ge}')
    elif gk == 'value' and canon(got) != canon(out[1]):
        return 'value', f'{tag}: expected {out[1]!r} got {got!r}'
    if renv is not None and cnames(renv) != cnames(ienv):
        return 'names', f'{tag}: names expected {renv!r} got {ienv!r}'
    return None


def d15_shape(ast_body, renv, ienv):
    """the failing program applies a compound assignment inside a statement-bodied lambda to an outer name holding a list"""
    if not ast_body:
        return False
    assigned = set()
    for line in ast_body.replace('0:', '', 1).split('\n'):
        parts = line.split()
        if len(parts) >= 2 and parts[1] == '=':
            assigned.add(parts[0])
        if len(parts) >= 2 and parts[1] in ('+=', '-=', '*=', '/=') and parts[0] not in assigned:
            if isinstance(renv.get(parts[0]), list) or isinstance(ienv.get(parts[0]), list):
                return True
    return False


def run_program(case):
    """-> (failures, info)"""
    import smartquery.functions as Fn
    p = parser()
    src, base, ast_body = case['src'], core.dec(case['env']), case.get('ast')
    mode = case.get('mode', 'plain')
    info = {'outcome': None, 'discard': False}
    fails = []
    try:
        p.parse(src)
    except Exception:  # noqa
        info['discard'] = True
        return fails, info
    hs = {} if mode == 'tiny' else None
    renv = {**copy.deepcopy(base), **(hosts() if hs is None else hs)}
    ienv = {**copy.deepcopy(base), **(hosts() if hs is None else hs)}
    fsnap = dict(Fn.FUNCTIONS)

    def bad(sig, msg):
        if d15_shape(ast_body, renv, ienv):
            sig = 'ast-body:compound-on-outer-list'
        fails.append(Failure(sig, f'{src!r}' + (f' with h(a) = {ast_body!r}' if ast_body else '') + f' names {base!r}: {msg}'[:1400], case))

    def table_check(when):
        if set(Fn.FUNCTIONS) != set(fsnap) or any(Fn.FUNCTIONS[k] is not fsnap[k] for k in fsnap):
            changed = sorted(set(Fn.FUNCTIONS) ^ set(fsnap)) + [k for k in fsnap if k in Fn.FUNCTIONS and Fn.FUNCTIONS[k] is not fsnap[k]]
            Fn.FUNCTIONS.clear()
            Fn.FUNCTIONS.update(fsnap)
            bad('builtin-table-modified', f'{when}: the builtin table changed: {changed[:6]}')
            return False
        return True

    if mode == 'nonames':
        out = eval_ref(src, {}, ast_body)
        gk, got, ge = eval_impl(src, None, ast_body, use_names=False)
        info['outcome'] = out[0]
        if not table_check('after an eval without a names mapping'):
            return fails, info
        r = compare('eval without names', out, gk, got, ge, None, None)
        if r:
            bad(*r)
        # a second eval on a fresh mapping must not see anything of the first
        out2 = eval_ref(case.get('src2', 'len([1, 2])'), {}, None)
        gk2, got2, ge2 = eval_impl(case.get('src2', 'len([1, 2])'), {}, None)
        r = compare('later eval', out2, gk2, got2, ge2, None, None)
        if r:
            bad('leak-across-evals:' + r[0], r[1])
        # ... and neither does another eval that is given no names mapping at all
        out3 = eval_ref(case.get('src2', 'len([1, 2])'), {}, None)
        gk3, got3, ge3 = eval_impl(case.get('src2', 'len([1, 2])'), None, None, use_names=False)
        r = compare('later eval without names', out3, gk3, got3, ge3, None, None)
        if r and not fails:
            bad('leak-across-evals-without-names:' + r[0], r[1])
        return fails, info

    out = eval_ref(src, renv, ast_body)
    gk, got, ge = eval_impl(src, ienv, ast_body)
    info['outcome'] = out[0]
    if gk == 'recursion' or out[0] == 'unspec' or 'recursion' in repr(out):
        info['discard'] = True
        return fails, info
    if not table_check('after eval'):
        return fails, info
    r = compare('eval', out, gk, got, ge, renv, ienv)
    if r:
        bad(*r)
        return fails, info
    # host invokes the program's lambdas after the eval: no binding may be left behind, same value as the reference's
    for name in list(ienv):
        fi, fr = ienv.get(name), renv.get(name)
        if name in ('call', 'safe') or not callable(fi) or not callable(fr):
            continue
        for args in ([D(3)], [D(3), D(4)]):
            before = cnames(ienv)
            try:
                vi = ('value', canon(fi(*args)))
            except Exception as e:  # noqa
                vi = ('error',)
            try:
                vr = ('value', canon(fr(*args)))
            except refsem.Unspec:
                continue
            except Exception:  # noqa
                vr = ('error',)
            if cnames(ienv) != before:
                bad('host-call-leaks-bindings', f'host call of {name}{tuple(args)} changed the names mapping: {before} -> {cnames(ienv)}')
                return fails, info
            if vi != vr:
                bad('host-call-value', f'host call of {name}{tuple(args)}: {vi} vs reference {vr}')
                return fails, info
    # carry the lambdas into a second mapping: free names resolve there, parameters shadow, nothing leaks back
    if mode == 'carry' and out[0] == 'value':
        lam = [k for k, v in ienv.items() if callable(v) and k not in ('call', 'safe')]
        if lam:
            other = {'x': D(1000), 'y': [D(7)], 'k': 'other', 'len': D(5)}
            r2 = {**copy.deepcopy(other), **hosts(), **{k: renv[k] for k in lam}}
            i2 = {**copy.deepcopy(other), **hosts(), **{k: ienv[k] for k in lam}}
            src2 = case.get('src2') or f'{lam[0]}(2)'
            try:
                p.parse(src2)
            except Exception:  # noqa
                return fails, info
            keep_r, keep_i = cnames(renv), cnames(ienv)
            out2 = eval_ref(src2, r2, None)
            gk2, got2, ge2 = eval_impl(src2, i2, None)
            if gk2 == 'recursion':
                return fails, info
            info['carried'] = True
            r = compare(f'second mapping, {src2!r}', out2, gk2, got2, ge2, r2, i2)
            if r:
                bad('carried-lambda:' + r[0], r[1])
            elif cnames(ienv) != keep_i:
                bad('carried-lambda:first-mapping-changed', f'evaluating {src2!r} under another mapping changed the first one')
    table_check('at the end')
    return fails, info


def run_case(case):
    return run_program(case)[0]


# ------------------------------------------------------------------------------------------------ generation
@hst.composite
def cases(draw):
    n = lambda k: draw(hst.integers(0, k - 1))  # noqa
    pick = lambda xs: xs[n(len(xs))]  # noqa
    sample = lambda xs, k: [xs[i] for i in draw(hst.permutations(range(len(xs))))[:k]]  # noqa
    tiny = n(6) == 0

    def expr(d, params):
        r = n(100)
        if d <= 0 or r < 28:
            return pick(NAMES + params + ['1', '2', '[1, 2]', '"s"', 'None', 'None'])
        if r < 42:
            return f'({expr(d - 1, params)} + {expr(d - 1, params)})'
        if r < 58:
            ps = sample(NAMES, 1 + n(2))
            args = ', '.join(expr(d - 1, params) for _ in ps)
            head = ps[0] if len(ps) == 1 else '(' + ', '.join(ps) + ')'
            return f'call({head} => {expr(d - 1, params + ps)}, {args})'
        if r < 66:
            ps = sample(NAMES, 1)
            return f'safe({ps[0]} => {expr(d - 1, params + ps)}, {expr(d - 1, params)})'
        if r < 74:
            return f'map([1, 2], {pick(NAMES)} => {expr(d - 1, params)})'
        if r < 79:
            return f'safe(v => undefined_zz + v, {expr(d - 1, params)})'
        if r < 83:
            return 'safe(v => 1 / 0, 1)'
        if r < 86:
            return f'safe(v => map([1, 0], w => v / w), {expr(d - 1, params)})'
        if r < 90:
            return f'g({expr(d - 1, params)})'
        if r < 93:
            return f'sorted([2, 1], {pick(NAMES)} => 0 - {pick(NAMES + params)})' if n(2) else f'reduce([1, 2, 3], ({pick(NAMES)}, y) => {expr(d - 1, params + ["y"])})'
        if r < 96:
            return f'call(x => call(x => x + {pick(NAMES + params)}, x + 1), {expr(d - 1, params)})'
        return f'len([{expr(d - 1, params)}])'

    def stmt():
        r = n(100)
        if r < 24:
            return f'{pick(NAMES)} = {expr(2, [])}'
        if r < 28:
            return pick(['g = x => 1 if x <= 1 else g(x - 1) * x\ng(4)', 'g = (x, y) => x if y <= 0 else g(x + y, y - 1) + y\ng(0, 3)',
                         'call(x => x, None)', 'g = k => k\n[g(None), g(1)]', 'x = None\ncall(y => x, 1)', 'len = None\nlen'])
        if r < 40:
            ps = sample(NAMES, 1 + n(2))
            head = ps[0] if len(ps) == 1 else '(' + ', '.join(ps) + ')'
            return f'g = {head} => {expr(2, ps)}'
        if r < 50:
            return f'{pick(["x", "y", "k"])} += {expr(1, [])}'
        if tiny and r < 75:
            return pick(['call(x => x + 1, x)', 'map([x], x => x * 2)', 'safe(x => x / 0, x)', 'call(x => x, x)']) if n(2) else 'y = 5'
        return expr(3, [])

    src = '\n'.join(stmt() for _ in range(1 + n(5)))
    if tiny:
        # the host mapping is exactly one binding, equal to the parameter binding of the calls below; no host functions
        pname = pick(['x', 'v', 'len'])
        val = pick([D(10), D(0), 'kk'])
        base = {pname: val}
        pool = ['map([{p}], {p} => {p})', 'y = 5', '{p}', 'filter([{p}], {p} => True)', 'sorted([{p}], {p} => 1)',
                'q = map([{p}], {p} => [{p}])', 'y += 1', '{p} = {p}', 'map([{p}, {p}], {p} => map([{p}], {p} => {p}))']
        src = '\n'.join(pick(pool).format(p=pname) for _ in range(2 + n(4)))
        return {'src': src, 'env': core.enc(base), 'ast': None, 'mode': 'tiny', 'src2': None}
    if False:
        base = {'x': D(10)}
    else:
        base = {'x': D(10), 'y': [D(1)], 'k': 'kk'}
        if n(10) < 3:
            base['len'] = D(99)
        if n(10) < 2:
            base['sum'] = 'host-sum'
    ast = None
    if not tiny and n(10) < 4:
        ast = pick(AST_BODIES)
        if n(4) == 0:
            ast = '0:' + pick(['t = 5\nx = t\nx', 'k = 7\nk', 'x = 99\nx', 'y = [1]\ny', 'len = 3\nlen + 1', 'x = 1\nx += 1\nx', 'q = x\nq'])
            src += pick(['\nh()\n[x, k]', '\ng0 = v => h()\ng0(1)\n[x, k]', '\n[1, 2] | map(v => h())\n[x, k]', '\ncall(h)\n[x, k]'])
        else:
            src += '\nh(5)\n[x, k]'
    mode = 'plain'
    src2 = None
    r = n(10)
    if r == 0 and ast is None:
        mode = 'nonames'
        src = pick(['len = xs => 42\nlen([1])', 'zz = 1\nzz', 'str = 5\nstr', 'sum = v => 0\nq = 2\nsum([q])', src])
        src2 = pick(['len([1, 2])', 'zz', 'str(1)', 'sum([1, 2])', 'q'])
    elif r <= 3:
        mode = 'carry'
        if n(2):
            src += '\ng = v => v + x' if n(2) else '\ng = (y, v) => [x, y, k]'
        src2 = pick([None, 'g(2)', 'g(x)', 'map([1, 2], g)', 'x = g(1)\nx', 'call(g, 3)'])
    return {'src': src, 'env': core.enc(base), 'ast': ast, 'mode': mode, 'src2': src2}


def nontrivial(case, info):
    src = case['src']
    multi = sum(1 for nm in NAMES if src.count(nm + ' =>') + src.count(nm + ')' + ' =>') + src.count(', ' + nm + ')') > 0 and src.count(nm) >= 2)
    return multi >= 1 or 'safe(' in src or bool(case.get('ast')) or case['mode'] != 'plain'


def jobs(tier, seed):
    per = 700 if tier == 'quick' else 32000
    return [(core.derive_seed(seed, 'c10', i), per) for i in range(16)]


def run_job(job):
    seed, n = job
    st = Stats()

    def check(case):
        fails, info = run_program(case)
        if info['discard']:
            return hyp.Result(discard=True)
        cls = ['mode:' + case['mode'], 'outcome:' + str(info['outcome'])]
        if case.get('ast'):
            cls.append('ast_names-body')
        if info.get('carried'):
            cls.append('carried-to-second-mapping')
        return hyp.Result(fails, nontrivial(case, info), cls, key=core.jdump(case),
                          sample={'src': case['src'], 'ast_body': case.get('ast'), 'mode': case['mode'], 'src2': case.get('src2')})

    st.excluded['D15:compound-assignment-on-outer-list-in-ast-body'] += 0
    hyp.drive(cases(), check, st, seed=seed, max_examples=n, known_sigs=_known_sigs())
    return st


def _known_sigs():
    known, _ = core.load_known()
    return [k.signature for k in known if k.prop == ID]
