"""C03 - the 10000-element cap on lists and dicts cannot be circumvented.

Sequences of every container-producing or -mutating path, starting from host containers of every length around the cap.
Oracle (monitor): no list/dict longer than bound = max(10000, longest host list/dict/string, longest literal) is ever
returned by a node or reachable from names/result; element-adding operations at the cap raise ParserError and leave the
container unchanged.
"""
import copy
import re

from hypothesis import strategies as hst

from sqv import core, hyp
from sqv.core import Failure, Stats
from sqv.monitor import Monitor

ID = 'C03'
LEVEL = 'exploration'
CAP = 10000
RULE = ('Hypothesis sequences (3-30 steps) over templates for push, insert, index and compound index assignment (new/'
        'existing key or index; also with surplus arguments), +, +=, *= (also through one node first evaluated with numbers), nested growth, doubling chains, slices, map/filter/sorted/reversed/enumerate/'
        'keys/values/items/split/match_all/join/dict/list, string growth followed by list-producing builtins; host list/'
        'dict lengths drawn from {0,1,5,9998,9999,10000,10001}, host strings up to 12000 chars, dict keys strings or ints; '
        '1 case in 7 returns a lambda that the host calls 1-3 times after eval() has returned. '
        'Oracle: bound = max(10000, longest host list/dict/string, longest literal); no list or dict longer than bound is '
        'returned by any node or reachable from names/result after any statement; push/insert/new-key assignment on a '
        'container with >= 10000 elements raises ParserError and leaves it unchanged. Non-trivial: some container within 2 '
        'of the cap or above 5000 elements existed during the run; distinct by source + host lengths.')
ASSUMPTIONS = ['overwriting an existing key/index of a full container may either fail or succeed (not element-adding)',
               'known finding D2b: strings are uncapped; generator never feeds a program-grown string longer than the '
               'bound, nor a >= 10000-char string to split/match_all, to a list-producing builtin (counted as excluded)']

_parser = None


def parser():
    global _parser
    if _parser is None:
        from smartquery import SqParser
        _parser = SqParser()
    return _parser


def longest(v, seen=None, depth=0):
    """longest list/dict/str reachable from a host value"""
    if seen is None:
        seen = set()
    if isinstance(v, str):
        return len(v)
    if isinstance(v, (list, tuple, dict)):
        if id(v) in seen or depth > 20:
            return 0
        seen.add(id(v))
        m = len(v)
        it = v.values() if isinstance(v, dict) else v
        for x in it:
            if isinstance(x, (list, tuple, dict, str)):
                m = max(m, longest(x, seen, depth + 1))
        if isinstance(v, dict):
            for k in v:
                if isinstance(k, str):
                    m = max(m, len(k))
        return m
    return 0


def overlong(v, bound, seen, depth=0):
    """-> (len, path) of a list/dict longer than bound reachable from v, else None"""
    t = type(v)
    if t is list or t is dict:
        if id(v) in seen or depth > 20:
            return None
        seen.add(id(v))
        if len(v) > bound:
            return len(v), t.__name__
        for x in (v.values() if t is dict else v):
            tx = type(x)
            if tx is list or tx is dict or tx is tuple:
                r = overlong(x, bound, seen, depth + 1)
                if r:
                    return r
    elif t is tuple:
        for x in v:
            r = overlong(x, bound, seen, depth + 1)
            if r:
                return r
    return None


def literal_bound(src):
    m = 0
    for lit in re.findall(r'"[^"]*"', src):
        m = max(m, len(lit) - 2)
    depth_counts = src.count(',') + 1
    return max(m, min(depth_counts, 64))


ADDERS = ('push', 'insert', '__setitem__', '__setitem_with_op__')


def run_source(src, names, case):
    from smartquery import ParserError
    bound = max(CAP, longest(names), literal_bound(src))
    fails = {}
    info = {'near_cap': False, 'max_len': 0, 'at_cap_ops': 0}

    def note(sig, msg):
        if sig not in fails:
            fails[sig] = Failure(sig, f'{src!r} (host lengths {case.get("lens")}): {msg}'[:1000], case)

    def producer(node):
        k = type(node).__name__
        for attr in ('op', 'name'):
            v = getattr(node, attr, None)
            if isinstance(v, str) and (attr == 'op' or k == 'CallOp'):
                return f'{k}:{v}'
        return k

    def see(v):
        t = type(v)
        if t is list or t is dict:
            n = len(v)
            if n > info['max_len']:
                info['max_len'] = n
            if n >= CAP - 2 or n > 5000:
                info['near_cap'] = True

    def post_node(node, state, r):
        see(r)
        t = type(r)
        if t is tuple and len(r) > 40 * bound:
            raise _Abort()          # harness self-protection only: tuples are outside the property, runaway growth ends the case
        if (t is list or t is dict) and len(r) > bound:
            note('overlong:' + producer(node), f'{producer(node)} returned a {t.__name__} of {len(r)} elements (bound {bound})')
            raise _Abort()
        k = type(node).__name__
        if k in ('ShortOp', 'AssignOp') or (k == 'CallOp' and getattr(node, 'name', '') in MUTATING_CALLS):
            bad = overlong(names, bound, set())
            if bad:
                note('overlong:' + producer(node), f'after {producer(node)} a {bad[1]} of {bad[0]} elements is reachable from names (bound {bound})')
                raise _Abort()
            for v in names.values():
                see(v)

    pending = []

    def pre_builtin(name, args):
        if name in ADDERS and args and type(args[0]) in (list, dict) and len(args[0]) >= CAP:
            c = args[0]
            # only a well-formed call is an element-adding operation (a wrong number of arguments fails before anything is added)
            adding = (name == 'push' and len(args) == 2) or (name == 'insert' and len(args) == 3)
            if name == 'insert' and adding:
                try:
                    int(args[1])
                except Exception:  # noqa
                    adding = False
            if name == '__setitem__' and type(c) is dict and len(args) == 3:
                try:
                    adding = str(args[1]) not in c
                except Exception:  # noqa
                    adding = False
            pending.append((name, c, copy.copy(c), adding))
            info['at_cap_ops'] += 1
        else:
            pending.append(None)

    def post_builtin(name, args, r):
        t = type(r)
        if (t is list or t is dict) and len(r) > bound:
            from_str = any(type(a) is str and len(a) >= CAP for a in args)
            sig = f'overlong:str>=10000:builtin:{name}' if from_str else f'overlong:builtin:{name}'
            note(sig, f'builtin {name} returned a {t.__name__} of {len(r)} elements (bound {bound})'
                      + (' from a string of >= 10000 characters' if from_str else ''))
            pending.pop()
            raise _Abort()
        p = pending.pop()
        if p is not None:
            nm, c, before, adding = p
            if adding:
                note(f'at-cap:{nm}:succeeded', f'{nm} on a {type(c).__name__} of {len(before)} elements returned normally (now {len(c)})')

    def builtin_exc(name, args, e):
        p = pending.pop()
        if p is not None and not isinstance(e, _Abort):
            nm, c, before, adding = p
            if c != before or len(c) != len(before):
                note(f'at-cap:{nm}:changed', f'{nm} failed with {type(e).__name__} but changed the container ({len(before)} -> {len(c)})')
            elif adding and not isinstance(e, ParserError):
                note(f'at-cap:{nm}:{type(e).__name__}', f'{nm} on a full container raised {type(e).__name__}: {e}, not ParserError')

    mon = Monitor(wrap_builtins=True)
    mon.post_node = post_node
    mon.pre_builtin = pre_builtin
    mon.post_builtin = post_builtin
    mon.builtin_exc = builtin_exc
    outcome = 'value'
    res = None
    with mon.on():
        try:
            res = parser().eval(src, names, max_ops_evaluated=10 ** 6)
            for arg in case.get('hostcalls') or ():
                # the host keeps the program's lambda and calls it after eval() has returned
                if callable(res):
                    info['hostcalls'] = info.get('hostcalls', 0) + 1
                    see(res(arg))
        except _Abort:
            outcome = 'abort'
        except ParserError:
            outcome = 'lang'
        except (RecursionError, MemoryError):
            outcome = 'resource'
        except Exception:  # noqa
            outcome = 'other'
    if outcome != 'abort':
        bad = overlong(names, bound, set()) or overlong(res, bound, set())
        if bad:
            note('overlong:final', f'a {bad[1]} of {bad[0]} elements is reachable at the end (bound {bound})')
    info['outcome'] = outcome
    info['bound'] = bound
    return list(fails.values()), info


class _Abort(BaseException):
    pass


MUTATING_CALLS = {'push', 'insert', '__setitem__', '__setitem_with_op__', 'pop', 'remove', '__delitem__'}


def make_names(lens):
    nl, nd, ns, keykind, hl = lens['L'], lens['D'], lens['S'], lens['keys'], lens['HL']
    names = {
        'L': list(range(nl)),
        'D': ({i: i for i in range(nd)} if keykind == 'int' else {f'k{i}': i for i in range(nd)}),
        'S': 'a' * ns,
        'HL': list(range(hl)),
        'HS': 'b,' * (lens['HS'] // 2),
        'N': [list(range(lens['N'])), [1]],
        'DN': {'a': list(range(lens['N'])), 'b': {}},
        'K2': 2, 'K3': 3, 'KT': True,
        'HT': tuple(range(hl)),          # host-supplied tuples are plain data too
    }
    return names


def run_case(case):
    return run_source(case['src'], make_names(case['lens']), case)[0]


# ------------------------------------------------------------------------------------------------ generation
LIST_STEPS = ['f = (a, b) => a + b\nf(K2, K3)\nL = f(L, L)', 'L = reduce([1, 2, L, L], (a, b) => b if a == 3 else a + b)', 'M = map([[1, 2], [L, L]], p => p[0] + p[1])\nL = M[1]',
              'Q = K2\nQ = Q + Q\nQ = L\nQ = Q + Q\nL = Q', 'L.push({v}, {v}, {v})', 'push(L, 1, 2)', 'insert(L, 0, {v}, {v})', 'L.insert(0, 1, 2, 3)', 'L | push(1, 2, 3, 4)',
              'T = enumerate([1, 2])[0]', 'T = T + T', 'T += T', 'T = T + HT', 'T = HT + HT', 'L = reversed(T)', 'L = sorted(T)', 'L = enumerate(T)',
              'L = reversed(HT + HT)', 'T = items(DN)[0]\nT += T', 'L = L + {v}', 'L = L + None', 'L = L + True', 'L = (L + 1) + 2', 'L = L + {{}}', 'L = rand(L, 25000)', 'L = rand([0], 1000000)', 'L *= K2', 'L = L * K2', 'L *= K3', 'M = [1, 2, 3]\nM *= K3\nM *= K3', 'L *= KT', 'L.push({v})', 'push(L, {v})', 'L.insert({i}, {v})', 'L[{i}] = {v}', 'L[{i}] += {v}', 'L = L + L', 'L += L',
              'L = L + [{v}, {v}]', 'L += [{v}]', 'L *= 2', 'L = L * 2', 'L += HL', 'L = HL + L', 'M = L', 'M += L',
              'M.push({v})', 'L += "{w}"', 'L += {{"p": 1, "q": 2}}', 'L = L[:]', 'L = L[1:] + L', 'L = reversed(L)',
              'L = sorted(L)', 'L = map(L, v => v)', 'L = filter(L, v => True)', 'L = values(D)', 'L = keys(D)',
              'L = items(D)', 'L = enumerate(L)', 'L = shuffle(L)', 'L = split(HS, ",")', 'L = list(L, L)[0] + list(L)[0]',
              'L.pop()', 'del L[0]', 'L = L + L[:{i}]', 'HL.push({v})', 'HL += L', 'L = L + HL + L', 'L += L + L',
              'M = [L, L]\nM[0] += M[1]\nL = M[0]', 'f = x => x + x\nL = f(L)', 'L = reduce([L, L, L], (a, b) => a + b)',
              'L = sum([L, L])', 'L = sum([L, HL, L])', 'M = sum([[1, 2], L, L])\nL = M', 'L = (L | map(v => [v, v])) | reduce((a, b) => a + b) if len(L) < 50 else L']
DICT_STEPS = ['get(D, "missing{j}", [])', 'get(D, "m{j}", {{}})', 'D.get("q{j}", [1])\nD.get("r{j}", 0)', 'map([1, 2, 3], v => get(D, "z" + str(v), []))',
              'D["n{j}"] = {v}', 'D[{j}] = {v}', 'D["k0"] = {v}', 'D["k0"] += 1', 'D[0] += 1', 'D2 = dict(D)', 'D2["z{j}"] = 1',
              'D = sorted(D)', 'D = dict(enumerate(L))', 'D = dict(items(D))', 'E = {{}}\nE["a"] = L\nE["a"] += L',
              'D[{j}.5] = {v}', 'D[True] = 1', 'D[None] = 1', 'del D["k1"]', 'D.remove("k2")', 'D = sorted(D, (k, v) => v)',
              'D2 = D\nD2["y{j}"] = 2', 'D = dict(map(L, v => [v, v]))', 'D[str({j})] = 1', 'D["{w}"] = D']
NESTED_STEPS = ['N[0] *= K2', 'DN["a"] *= K2', 'DN["a"] *= K3', 'DN["a"] += DN["a"]', 'DN["a"] = DN["a"] + DN["a"]', 'N[0] += N[0]', 'N[0].push({v})', 'N[0] = N[0] + L',
                'DN["a"].push({v})', 'N.push(N[0])', 'DN["b"] = L', 'DN["a"] += L', 'DN["a"] += "{w}"', 'N[0] += N[1]',
                'N[1] += N[0]', 'DN["a"].insert(0, {v})', 'DN["b"]["x{j}"] = 1', 'DN["a"] *= 2', 'N[0] += HL']
STR_STEPS = ['S = S + "{w}"', 'L = enumerate(S)', 'L = map(S, c => c)', 'L = sorted(S)', 'S = S[:{i}]', 'S = upper(S)',
             'L = L + enumerate(S)', 'S = join(L, "")', 'S = replace(S, "a", "ab", 3)']
DOUBLERS = {'L = L + L', 'L += L', 'T = T + T', 'T += T', 'DN["a"] += DN["a"]', 'DN["a"] = DN["a"] + DN["a"]', 'N[0] += N[0]', 'M += L', 'L += L + L'}
LENS = [0, 1, 5, 9998, 9999, 10000, 10001]


HOST_LAMBDAS = ['v => L.push(v)', 'v => push(L, v)', 'v => insert(L, 0, v)', 'v => __setitem__(D, "new" + str(v), v)', 'v => L + L', 'v => L + HL',
                'v => HL + L', 'v => reduce([L, L, [v]], (a, b) => a + b)', 'v => DN["a"].push(v)', 'v => __setitem_with_op__(DN, "a", "+=", L)',
                'v => sum([L, L])', 'v => N[0].insert(v, v)', 'v => __setitem__(L, 0, v)', 'v => map([1, 2], w => L.push(w))',
                'v => __setitem_with_op__(N, 0, "+=", N[0])', 'v => [L.push(v), D | __setitem__("q" + str(v), v)]', 'v => L + [v, v]']


@hst.composite
def cases(draw):
    n = lambda k: draw(hst.integers(0, k - 1))  # noqa
    pick = lambda xs: xs[n(len(xs))]  # noqa
    if n(7) == 0:
        near = lambda: pick([9998, 9999, 10000, 10001, 6000])  # noqa
        lens = {'L': near(), 'D': near(), 'N': near(), 'HL': pick([0, 3, 6000, 10000]), 'S': 5, 'HS': 10, 'keys': pick(['str', 'int'])}
        return {'src': pick(HOST_LAMBDAS), 'lens': lens, 'excluded': 0, 'hostcalls': [n(5) for _ in range(1 + n(3))]}
    focus = pick(['list', 'dict', 'nested', 'mixed', 'mixed'])
    big = lambda: pick(LENS) if n(4) else pick([9999, 10000])  # noqa
    small = lambda: pick([0, 1, 5, 3])  # noqa
    lens = {'L': big() if focus in ('list', 'mixed') else small(),
            'D': big() if focus in ('dict', 'mixed') else small(),
            'N': big() if focus == 'nested' else pick([0, 2, 5000, 7000]),
            'HL': pick([0, 3, 6000, 10000, 10001]) if n(3) == 0 else small(),
            'S': pick([0, 5, 5000, 9999, 10000]) if n(3) == 0 else small(),
            'HS': pick([0, 10, 12000]) if n(4) == 0 else 10,
            'keys': pick(['str', 'str', 'int'])}
    slen = lens['S']
    excluded = 0
    steps = []
    for _ in range(3 + n(28)):
        pool = {'list': LIST_STEPS, 'dict': DICT_STEPS, 'nested': NESTED_STEPS}.get(focus)
        if pool is None or n(4) == 0:
            pool = pick([LIST_STEPS, DICT_STEPS, NESTED_STEPS, STR_STEPS])
        tmpl = pick(pool)
        if pool is STR_STEPS and n(3) == 0:
            # string growth is uncapped (known finding D2b): never let a program-grown string exceed the bound
            if slen * 2 <= CAP and slen > 0:
                tmpl = 'S += S'
                slen *= 2
            else:
                excluded += 1
        if tmpl.startswith('S = S + "'):
            slen += 3
        if tmpl.startswith('S = join') or tmpl.startswith('S = replace') or tmpl.startswith('S = upper'):
            if tmpl.startswith('S = upper'):
                pass
            else:
                excluded += 1
                continue
        step = tmpl.format(v=n(9), i=pick([0, 1, -1, 2]), j=n(50), w=pick(['xyz', 'ab', 'q']))
        steps.append(step)
        if step in DOUBLERS and n(3) == 0:
            steps.extend([step] * 14)       # a doubling chain: 2 -> 32768 in 14 steps
            if step.startswith('T'):
                steps.append(pick(['L = reversed(T)', 'L = sorted(T)', 'L = enumerate(T)']))
        elif n(6) == 0:
            steps.append(step)      # immediate repetition
    return {'src': '\n'.join(steps), 'lens': lens, 'excluded': excluded}


# builtin sweep: every entry of the LIVE function table applied to near-cap containers and to each other's results
SWEEP_VARS = ['L', 'D', 'S', 'HL', 'HS', 'N', 'DN', 'K2', 'M', 'HT']
SWEEP_SCALARS = ['25000', '1000000', '10001', '0', '1', '2', '","', '"a"', '""', 'True', 'None', 'v => v', '(a, b) => a + b', 'v => [v, v]', '(k, v) => [k, v]', 'v => True',
                 '[1, 2]', '{"p": 1}', '-1', '1.5']


@hst.composite
def sweep_cases(draw, table):
    n = lambda k: draw(hst.integers(0, k - 1))  # noqa
    pick = lambda xs: xs[n(len(xs))]  # noqa
    big = lambda: pick([9998, 9999, 10000, 10001, 5000])  # noqa
    lens = {'L': big(), 'D': pick([0, 3, 9999, 10000]), 'N': pick([0, 2, 6000]), 'HL': pick([0, 3, 6000, 10000]), 'S': pick([0, 5, 9999]),
            'HS': pick([10, 12000]), 'keys': pick(['str', 'int'])}
    lines = []
    made = []
    from sqv.gen import shapes as _shapes
    unknown = [t for t in table if t not in _shapes.SHAPES]      # builtins this harness has no shape table for (new ones)
    for i in range(1 + n(4)):
        name = pick(unknown) if unknown and n(2) == 0 else pick(table)
        args = []
        for _ in range(n(4)):
            r = n(10)
            if name in unknown and r < 7:
                args.append(pick(['L', 'L', 'HL', 'K2', 'K3', 'D', 'S'] + made))
            elif r < 6:
                args.append(pick(SWEEP_VARS + made))
            else:
                args.append(pick(SWEEP_SCALARS))
        if name in ('split', 'match_all', 'match', 'match_groups') and args and args[0] == 'S' and lens['S'] >= CAP:
            args[0] = 'HS'
        form = n(4)
        call = f'{name}({", ".join(args)})'
        if form == 0 and args:
            call = f'{args[0]} | {name}' + (f'({", ".join(args[1:])})' if args[1:] else '')
        v = f'V{i}'
        lines.append(f'{v} = {call}' if n(5) else call)
        if lines[-1].startswith(v):
            made.append(v)
        if n(3) == 0 and made:
            lines.append(f'{pick(made)} += {pick(made + ["L"])}')
    return {'src': '\n'.join(lines), 'lens': lens, 'excluded': 0, 'sweep': True}


def jobs(tier, seed):
    per = 130 if tier == 'quick' else 3200
    js = [('seq', core.derive_seed(seed, 'c03', i), per) for i in range(12)]
    js += [('sweep', core.derive_seed(seed, 'c03s', i), per * 2) for i in range(4)]
    return js


def run_job(job):
    kind, seed, n = job
    st = Stats()

    def check(case):
        fails, info = run_source(case['src'], make_names(case['lens']), case)
        st.excluded['D2b:string-growth-beyond-bound'] += case.get('excluded', 0)
        st.add('at_cap_mutator_calls', info['at_cap_ops'])
        st.maxi('container_length', info['max_len'])
        return hyp.Result(fails, info['near_cap'], ['outcome:' + info['outcome']] + (['host-called-lambda'] if info.get('hostcalls') else []),
                          key=case['src'] + repr(case['lens']) + repr(case.get('hostcalls')),
                          sample={'src': case['src'][:400], 'lens': case['lens'], 'max_len': info['max_len']})

    if kind == 'sweep':
        import smartquery.functions as Fn
        table = sorted(Fn.FUNCTIONS)
        calls = {}

        def check_sweep(case):
            fails, info = run_source(case['src'], make_names(case['lens']), case)
            for line in case['src'].split('\n'):
                for nm in table:
                    if nm + '(' in line or '| ' + nm in line:
                        calls[nm] = calls.get(nm, 0) + 1
            return hyp.Result(fails, info['near_cap'], ['sweep', 'outcome:' + info['outcome']], key=case['src'] + repr(case['lens']),
                              sample={'src': case['src'][:300], 'lens': case['lens'], 'max_len': info['max_len']})

        hyp.drive(sweep_cases(table), check_sweep, st, seed=seed, max_examples=n, known_sigs=_known_sigs(), shrink_budget_s=40)
        st.extra['sweep_calls_per_builtin'] = calls
        return st
    hyp.drive(cases(), check, st, seed=seed, max_examples=n, known_sigs=_known_sigs(), shrink_budget_s=40)
    return st


def _known_sigs():
    known, _ = core.load_known()
    return [k.signature for k in known if k.prop == ID]
