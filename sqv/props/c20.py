"""C20 - syntax-error messages name the offending token and its physical line.

Valid multi-statement programs (mixed \\n, \\r\\n, ; separators, blank lines, comments, multi-line bracketed literals) are made
invalid by construction at a known token, so the offending token and its physical line are known without any parser; all
truncations of accepted programs must report an unexpected end of input.
"""
import re

from hypothesis import strategies as hst

from sqv import core, hyp
from sqv.core import Failure, Stats
from sqv.gen import sentences, typed
from sqv.spec import reflex, refparse, unparse

ID = 'C20'
LEVEL = 'exploration'
RULE = ('Hypothesis: 1-6 statements (typed programs, grammar sentences, multi-line bracketed literals) joined by \\n, \\r\\n, ;, '
        'blank lines and comment lines, made invalid by construction: an operand (zz, 77, "q") inserted right after an '
        'operand-ending token, a binary-only operator after an operator / opener / separator, a closing bracket without opener, a '
        'doubled comma - at a drawn position; and truncations at token boundaries. Oracle: the ParserError message contains the '
        'inserted token\'s text and "line L", L = 1 + number of \\n before it; rejected truncations report an unexpected end of '
        'input. Non-trivial: the error is preceded by a ; or by a newline inside brackets, or lies on line >= 3; distinct by text.')
ASSUMPTIONS = ['an LR parser never shifts a non-viable token, so the token reported for a by-construction error is the inserted one',
               'a STRING token may be named with or without its quotes']

# stray operands: plain ones, and tokens whose text mixes non-printable characters with non-ASCII letters or backslashes
STRAYS = ['zz', '77', '"q"', 'zz', '77', '"q"', '%\u0438\u043c\u044f\t\u043f\u043e\u043b\u044f%', '"10\xa0\u20ac"', 'r"\\d+\t\\w"', '\u00e9t\u00e9', '"\u043a\u043b\u044e\u0447\t\u0446\u0435\u043d\u0430"', 'r"C:\\dir\x0c"']
OPERAND_END = {'NAME', 'NUMBER', 'STRING', 'RPAREN', 'RBRACKET', 'RBRACE', 'TRUE', 'FALSE', 'NONE'}
AFTER_OP = {'PLUS', 'TIMES', 'DIVIDE', 'POWER', 'EQ', 'LT', 'AND', 'OR', 'LPAREN', 'LBRACKET', 'COMMA', 'ASSIGN', 'NEWLINE', 'MINUS', 'IN'}
BINONLY = ['*', '/', '**', '==', 'and', 'or', 'in', '.', '|', '=>', '<=', '!=']
MULTI = ['s = "a\\nb\\nc"', 'w = ["l1\\nl2", \'q\\n\']', 't = "x\\ty\\n" + r"raw\\n"', 'x = [\n1,\n2\n]', 'd = {\n"a": 1,\n"b": [2,\n3]\n}', 'f(\na,\nb\n)', 'y = (1 +\n 2)', 'z = [\r\n 1,\r\n 2\r\n]',
         'g(a, # c\n b)', 'm = {"k": [1,\n\n 2] | f}', 'x = [\n 1,\n\n 2\n]', 'f(\n\n a,\n \n b)', 'd = {\n\n"a": 1\n\n}', 'y = (\n\n1)', 'z = [\r\n\r\n 1]', 'q = [\n \t \n1,\n\n\n2]',
         'h(a,\n\n# c\n\n b)', 'k = [1,\n\x0c\n2]'.replace('\x0c', ' ')]
EOF_RE = re.compile(r'(?i)\bend[- ]of[- ](input|file|text|expression|program|source|code|script|statement)\b|\bEOF\b|unexpected end|premature end|'
                    r'incomplete (input|expression|program|statement)|ended unexpectedly')
_parser = None
_cached_parser = None


def parser(cached=False):
    global _parser, _cached_parser
    from smartquery import SqParser
    if cached:
        if _cached_parser is None:
            _cached_parser = SqParser(parse_cache={})
        return _cached_parser
    if _parser is None:
        _parser = SqParser()
    return _parser


def judge(text, exp_text, exp_line, case, p=None):
    from smartquery import ParserError
    p = p or parser()
    try:
        if case.get('via') == 'eval':
            p.eval(text, {})
        else:
            p.parse(text)
        return [Failure('accepted', f'{text!r}: invalid by construction but accepted', case)]
    except ParserError as e:
        msg = str(e)
    except RecursionError:
        return []
    except Exception as e:  # noqa
        return [Failure('not-ParserError:' + type(e).__name__, f'{text!r}: {type(e).__name__}: {e}', case)]
    if exp_text is None:
        if not EOF_RE.search(msg):
            return [Failure('truncation-not-reported-as-end-of-input', f'{text!r}: message {msg!r}', case)]
        return []
    if exp_text == '\x00NEWLINE':
        exp_text = ''       # a line break has no visible text to name; only its line is judged
    if exp_text not in msg:
        return [Failure('token-not-named', f'{text!r}: message {msg!r} does not name the offending token {exp_text!r}', case)]
    # naming a token is not quoting the rest of the program: lines *after* the offending token's line must not be in the message
    lines = text.split('\n')
    following = '\n'.join(lines[exp_line:]).strip()
    if len(following) >= 12 and following[:24] in msg:
        return [Failure('message-quotes-following-lines', f'{text!r}: message {msg!r} contains the program text that follows the offending line', case)]
    m = re.search(r'(?i)\bline\W{0,3}(\d+)', msg)
    if not m:
        # no "line N" wording: accept the line number as any integer of the message that is not part of the token's text
        nums = [int(x) for x in re.findall(r'\d+', msg.replace(exp_text, ' '))]
        if exp_line in nums:
            return []
        return [Failure('no-line-number', f'{text!r}: message {msg!r} carries no line number (expected {exp_line})', case)]
    if int(m.group(1)) != exp_line:
        return [Failure('wrong-line', f'{text!r}: message {msg!r}, the offending token {exp_text!r} stands on physical line {exp_line}', case)]
    return []


def run_case(case):
    from smartquery import SqParser
    p = SqParser(parse_cache={}) if case.get('cached') else SqParser()
    if case.get('prior'):
        try:
            p.parse(case['prior'])
        except Exception:  # noqa
            pass
    return judge(case['text'], case['exp_text'], case['exp_line'], case, p)


@hst.composite
def cases(draw):
    n = lambda k: draw(hst.integers(0, k - 1))  # noqa
    pick = lambda xs: xs[n(len(xs))]  # noqa
    parts = []
    k = 1 + n(6)
    for i in range(k):
        r = n(10)
        if r < 3:
            parts.append(pick(MULTI))
        elif r < 7:
            stmts, _e, _l = draw(typed.programs(max_stmts=1, max_depth=2))
            parts.append(unparse.minimal_stmt(stmts[0]))
        else:
            parts.append(unparse.minimal_stmt(draw(sentences.programs(max_depth=2, max_stmts=1))[0]))
        parts.append(pick(['\n', '\n', ';', '\r\n', '\n\n', ' # c\n', '; ', '\r\n\r\n', ';;', '\n# only a comment\n', ' # page\x0cbreak\n', '\n#\x0b\x1c\x1d\x1e\n',
                          ' # nel\x85 ls\u2028 ps\u2029\n']))
    src = pick(['', '', '', '\n', '\n\n', '\r\n', ' \n\t\n', '# c\n']) + ''.join(parts[:-1])
    mode = pick(['operand', 'operand', 'binop', 'binop', 'closer', 'comma', 'trunc', 'dangling', 'assign-literal'])
    return src, mode, n(10 ** 6), n(12)


def build(src, mode, pos_seed, var):
    """-> (text, exp_text, exp_line) or None"""
    try:
        toks = reflex.lex(src)
        refparse.parse([(t.kind, t.value) for t in toks])
    except (reflex.LexError, refparse.Rej):
        return None
    if not toks:
        return None
    if mode == 'operand':
        c = [t for t in toks if t.kind in OPERAND_END]
        if not c:
            return None
        t = c[pos_seed % len(c)]
        stray = STRAYS[var % len(STRAYS)]
        new = src[:t.end] + ' ' + stray + ' ' + src[t.end:]
        inner = stray[1:] if stray.startswith('r"') else stray
        return new, inner.strip('"'), 1 + new.count('\n', 0, t.end + 1)
    if mode == 'binop':
        c = [t for t in toks if t.kind in AFTER_OP]
        stray = BINONLY[var % len(BINONLY)]
        if c and pos_seed % 7:
            t = c[pos_seed % len(c)]
            new = src[:t.end] + ' ' + stray + ' ' + src[t.end:]
            return new, stray, 1 + new.count('\n', 0, t.end + 1)
        return stray + ' ' + src, stray, 1
    if mode == 'closer':
        c = [t for t in toks if t.kind in OPERAND_END and t.depth == 0]
        if not c:
            return None
        t = c[pos_seed % len(c)]
        stray = [')', ']', '}'][var % 3]
        new = src[:t.end] + ' ' + stray + ' ' + src[t.end:]
        return new, stray, 1 + new.count('\n', 0, t.end + 1)
    if mode == 'comma':
        c = [t for t in toks if t.kind == 'COMMA']
        if not c:
            return None
        t = c[pos_seed % len(c)]
        new = src[:t.end] + ' , ' + src[t.end:]
        return new, ',', 1 + new.count('\n', 0, t.end + 1)
    if mode == 'dangling':
        # an operator left dangling at the end of a line: the offending token is the line break itself
        c = [i for i, t in enumerate(toks) if t.kind == 'NEWLINE' and t.depth == 0 and i > 0 and toks[i - 1].kind in OPERAND_END
             and toks[i - 1].depth == 0]
        if not c:
            return None
        i = c[pos_seed % len(c)]
        t, prev = toks[i], toks[i - 1]
        if '#' in src[prev.end:t.pos]:
            return None         # a comment sits between the last token and the line break
        stray = ['+', '*', 'and', 'or', 'if x', '-'][var % 6]
        new = src[:prev.end] + ' ' + stray + src[prev.end:]
        if t.text == ';':
            return new, ';', 1 + new.count('\n', 0, t.pos + len(stray) + 1)
        return new, '\x00NEWLINE', 1 + new.count('\n', 0, t.pos + len(stray) + 1)
    if mode == 'assign-literal':
        # an assignment operator after something that can never be assigned to
        c = [t for t in toks if t.kind in ('NUMBER', 'STRING', 'TRUE', 'FALSE', 'NONE') and t.depth == 0]
        if not c:
            return None
        t = c[pos_seed % len(c)]
        stray = ['=', '+=', '-=', '*=', '/='][var % 5]
        new = src[:t.end] + ' ' + stray + ' 1 ' + src[t.end:]
        return new, stray, 1 + new.count('\n', 0, t.end + 1)
    # truncation at a token boundary
    t = toks[pos_seed % len(toks)]
    new = src[:t.pos].rstrip(' \t')
    try:
        refparse.parse([(x.kind, x.value) for x in reflex.lex(new)])
        return ('ACCEPTED', None, None)
    except refparse.Rej:
        return new, None, None
    except reflex.LexError:
        return None


def jobs(tier, seed):
    per = 700 if tier == 'quick' else 25000
    return [(core.derive_seed(seed, 'c20', i), per) for i in range(16)]


def run_job(job):
    seed, n = job
    st = Stats()
    prior = [None]

    def check(c):
        src, mode, pos_seed, var = c
        if mode == 'trunc':
            # every truncation of the accepted program at a token boundary
            try:
                toks = reflex.lex(src)
                refparse.parse([(t.kind, t.value) for t in toks])
            except (reflex.LexError, refparse.Rej):
                return hyp.Result(discard=True)
            fails = []
            rejected = 0
            for i in range(len(toks)):
                b = build(src, 'trunc', i, 0)
                if b is None or b[0] == 'ACCEPTED':
                    continue
                rejected += 1
                case = {'text': b[0], 'exp_text': None, 'exp_line': None, 'prior': prior[0]}
                fails.extend(judge(b[0], None, None, case))
                prior[0] = b[0]
                if fails:
                    break
            st.add('rejected_truncations', rejected)
            if not rejected:
                return hyp.Result(discard=True)
            return hyp.Result(fails, src.count('\n') >= 2 or ';' in src, ['mode:all-truncations'], key='trunc:' + src,
                              sample={'program': src, 'rejected_truncations': rejected})
        b = build(src, mode, pos_seed, var)
        if b is None or b[0] == 'ACCEPTED':
            return hyp.Result(discard=True)
        text, exp_text, exp_line = b
        cached = (pos_seed % 3 == 0)
        case = {'text': text, 'exp_text': exp_text, 'exp_line': exp_line, 'prior': prior[0], 'cached': cached, 'via': 'eval' if pos_seed % 2 else 'parse'}
        fails = judge(text, exp_text, exp_line, case, parser(cached))
        if cached:
            st.add('cases_on_a_parser_with_parse_cache')
        prior[0] = text
        if exp_line is None:
            nt = text.count('\n') >= 2 or ';' in text
        else:
            # position of the inserted token = first occurrence search is unreliable; use the line and the text before it
            lines_before = exp_line - 1
            head = '\n'.join(text.split('\n')[:exp_line])
            in_brackets_nl = any(t.depth > 0 for t in _safe_lex(head)) and '\n' in head
            nt = exp_line >= 3 or ';' in head or in_brackets_nl
        return hyp.Result(fails, nt, ['mode:' + mode], key=text,
                          sample={'text': text, 'offending': exp_text, 'line': exp_line})

    hyp.drive(cases(), check, st, seed=seed, max_examples=n)
    return st


def _safe_lex(text):
    try:
        return reflex.lex(text)
    except reflex.LexError as e:
        return getattr(e, 'tokens', [])
