"""C16 - language-level failures are ParserErrors; nothing worse ever escapes.

(a) any string: coverage-guided fuzzing (atheris) of parse / list_names / eval + Hypothesis text, truncations of valid
    programs at every token boundary, unbalanced brackets, unterminated strings.  Oracle: nothing but an Exception instance
    may escape; lexically invalid (reference lexer) => ParserError from all three entry points; lexically valid but not
    derivable (reference parser) => ParserError from parse and eval.
(b) placed failures: a well-typed program in which one drawn position is replaced by a failure of a listed kind; when the
    reference interpreter says the run ends in a language-level failure, the implementation must raise ParserError.
"""
import glob
import json
import os
import shutil
import subprocess
import sys
import tempfile

from hypothesis import strategies as hst

from sqv import core, hyp
from sqv.core import Failure, Stats
from sqv.gen import sentences, typed
from sqv.spec import reflex, refparse, refsem, unparse
from sqv.spec.neutral import neutral

ID = 'C16'
LEVEL = 'exploration'
RULE = ('(a) atheris coverage-guided fuzzing (16 independent processes, empty corpus and a corpus of valid programs, dictionary of '
        'keywords/operators, max_len 256) plus Hypothesis: arbitrary Unicode text, texts from hostile atoms, every truncation of '
        'valid programs at token boundaries, one-token mutations, unbalanced brackets, unterminated strings - each given to parse, '
        'list(list_names()) and eval; (b) Hypothesis placed failures: typed programs with one position replaced by an undefined '
        'variable read, undefined function (call / method / pipe), compound assignment to an undefined target, missing dict key '
        '(string, decimal, integral, huge, bool, None, list, infinite and NaN keys), '
        'out-of-range list/string index, pop on an empty list, element-adding at the 10000 cap, or the budget set to the number '
        'of operations needed. Every other job runs while a newer, never-used SqParser exists in the process. Oracle in the module docstring. Non-trivial: (a) a rejected input with >= 3 tokens, (b) every case '
        'whose reference run ends in the placed language-level failure; distinct by text.')
ASSUMPTIONS = ['RecursionError / MemoryError on pathologically deep or large valid programs are ordinary Exceptions (allowed)',
               'libFuzzer seeds pin a campaign only approximately; the saved input is the reproducible unit and the Hypothesis '
               'parts are deterministic in VERIF_SEED']

_parser = None
_cached = None
_BYSTANDER = {'want': False, 'kept': []}


def parser(cached=False):
    global _parser, _cached
    from smartquery import SqParser
    if cached:
        if _cached is None or len(_cached.parse_cache) > 5000:
            _cached = SqParser(parse_cache={})
        return _cached
    if _parser is None:
        _parser = SqParser()
    if _BYSTANDER['want'] and not _BYSTANDER['kept']:
        # the host owns several parsers: one more is constructed after the others and never used
        parser(True)
        _BYSTANDER['kept'].append(SqParser())
    return _parser


# ------------------------------------------------------------------------------------------------ (a) any string
def classify(text):
    """-> 'lex-invalid' | 'syntax-invalid' | 'valid' per the frozen reference"""
    try:
        toks = reflex.lex(text)
    except reflex.LexError:
        return 'lex-invalid', 0
    try:
        refparse.parse([(t.kind, t.value) for t in toks])
    except refparse.Rej:
        return 'syntax-invalid', len(toks)
    except RecursionError:
        return 'unknown', len(toks)
    return 'valid', len(toks)


def innermost_frame(e):
    tb = e.__traceback__
    where = '?'
    while tb is not None:
        fn = tb.tb_frame.f_code.co_filename
        if os.sep + 'smartquery' + os.sep in fn and os.sep + 'sqv' + os.sep not in fn:
            where = os.path.basename(fn) + ':' + tb.tb_frame.f_code.co_name
        tb = tb.tb_next
    return where


def judge_text(text, case=None, stats=None):
    """-> (failures, info) for one arbitrary string"""
    from smartquery import ParserError
    use_cache = bool(case and case.get('cached')) or (len(text) % 3 == 0 and case is None)
    p = parser(use_cache)
    case = case or {'kind': 'text', 'text': text, 'cached': use_cache}
    fails = []
    cls_all, ntok = classify(text)
    cls_eval, _ = classify(text.rstrip())
    info = {'class': cls_all, 'tokens': ntok, 'rejected': False}

    def bad(sig, msg):
        fails.append(Failure(sig, f'{text!r}: {msg}'[:1000], case))

    entries = (('parse', lambda: p.parse(text), cls_all), ('list_names', lambda: list(p.list_names(text)), cls_all),
               ('eval', lambda: p.eval(text, {}, max_ops_evaluated=300), cls_eval))
    for name, fn, cls in entries:
        try:
            fn()
            outcome = None
        except ParserError:
            outcome = 'ParserError'
        except Exception as e:  # noqa
            outcome = e
        except BaseException as e:  # noqa  SystemExit, KeyboardInterrupt, GeneratorExit ...
            bad(f'escaped-BaseException:{name}:{type(e).__name__}', f'{name} raised {type(e).__name__}: {e}')
            continue
        if outcome is not None:
            info['rejected'] = True
        if stats is not None and outcome is not None and outcome != 'ParserError':
            stats.add(f'exc:{name}:{type(outcome).__name__}@{innermost_frame(outcome)}')
        must = (cls == 'lex-invalid') or (cls == 'syntax-invalid' and name != 'list_names')
        if must and outcome != 'ParserError':
            got = 'returned normally' if outcome is None else f'raised {type(outcome).__name__}: {outcome}'
            what = 'lexically invalid' if cls == 'lex-invalid' else 'not derivable by the grammar'
            sig = f'{cls}:{name}:' + ('accepted' if outcome is None else type(outcome).__name__ + '@' + innermost_frame(outcome))
            bad(sig, f'text is {what} but {name} {got}')
    return fails, info


# ------------------------------------------------------------------------------------------------ (b) placed failures
BIG = 10000
FAIL_EXPRS = {
    'undefined-variable': lambda: ('Name', 'undefined_zz9'),
    'undefined-variable-dotted': lambda: ('Name', '%nosuch9.field%'),
    'undefined-variable-dots-only': lambda: ('Name', '%.%'),
    'undefined-variable-spaced': lambda: ('Name', '%no such 9%'),
    'undefined-variable-superscript': lambda: ('Name', 'x9\u00b2'),
    'undefined-variable-unicode': lambda: ('Name', '\u00e9t\u00e99'),
    'undefined-function': lambda: ('Call', 'nofn9', [('Val', typed.D('1'))], 'call'),
    'undefined-method': lambda: ('Call', 'nomethod9', [('Name', 'xs')], 'dot'),
    'undefined-pipe': lambda: ('Call', 'nopipe9', [('Name', 'xs')], 'pipe'),
    'missing-key': lambda: ('Call', '__getitem__', [('Dict', [(('Val', 'a'), ('Val', typed.D('1')))], ''), ('Val', 'zz')], 'idx'),
    'missing-key-var': lambda: ('Call', '__getitem__', [('Name', 'dd'), ('Val', 'no such key')], 'idx'),
    'missing-key-inf': lambda: ('Call', '__getitem__', [('Name', 'dd'), ('Call', 'float', [('Val', 'inf')], 'call')], 'idx'),
    'missing-key-neg-inf': lambda: ('Call', '__getitem__', [('Dict', [(('Val', 'a'), ('Val', typed.D('1')))], ''),
                                                          ('Un', '-', ('Call', 'float', [('Val', 'Infinity')], 'call'))], 'idx'),
    'missing-key-nan': lambda: ('Call', '__getitem__', [('Name', 'dd'), ('Call', 'float', [('Val', 'nan')], 'call')], 'idx'),
    'missing-key-huge': lambda: ('Call', '__getitem__', [('Name', 'dd'), ('Bin', '**', ('Val', typed.D('10')), ('Val', typed.D('40')))], 'idx'),
    'missing-key-bool': lambda: ('Call', '__getitem__', [('Name', 'dd'), ('Val', True)], 'idx'),
    'missing-key-none': lambda: ('Call', '__getitem__', [('Name', 'dd'), ('Val', None)], 'idx'),
    'missing-key-list': lambda: ('Call', '__getitem__', [('Name', 'dd'), ('Call', 'list', [('Val', typed.D('1'))], 'lit')], 'idx'),
    'missing-key-decimal': lambda: ('Call', '__getitem__', [('Name', 'dd'), ('Val', typed.D('2.50'))], 'idx'),
    'missing-key-integral': lambda: ('Call', '__getitem__', [('Name', 'dd'), ('Val', typed.D('7.0'))], 'idx'),
    'list-index': lambda: ('Call', '__getitem__', [('Call', 'list', [('Val', typed.D('1'))], 'lit'), ('Val', typed.D('5'))], 'idx'),
    'list-index-negative': lambda: ('Call', '__getitem__', [('Call', 'list', [('Val', typed.D('1'))], 'lit'), ('Un', '-', ('Val', typed.D('4')))], 'idx'),
    'string-index': lambda: ('Call', '__getitem__', [('Val', 'abc'), ('Val', typed.D('7'))], 'idx'),
    'string-index-negative': lambda: ('Call', '__getitem__', [('Val', 'abc'), ('Un', '-', ('Val', typed.D('4')))], 'idx'),
    'pop-empty': lambda: ('Call', 'pop', [('Call', 'list', [], 'lit')], 'call'),
    'pop-empty-index': lambda: ('Call', 'pop', [('Call', 'list', [], 'lit'), ('Val', typed.D('0'))], 'dot'),
    'lambda-arity-map': lambda: ('Call', 'map', [('Call', 'list', [('Val', typed.D('1')), ('Val', typed.D('2'))], 'lit'),
                                          ('Lambda', [('Name', 'v9'), ('Name', 'i9')], ('Bin', '+', ('Name', 'v9'), ('Name', 'i9')), 'paren')], 'call'),
    'lambda-arity-filter': lambda: ('Call', 'filter', [('Name', 'xs'), ('Lambda', [('Name', 'v9'), ('Name', 'i9')], ('Name', 'i9'), 'paren')], 'pipe'),
    'lambda-arity-sorted': lambda: ('Call', 'sorted', [('Call', 'list', [('Val', typed.D('2')), ('Val', typed.D('1'))], 'lit'),
                                                ('Lambda', [('Name', 'a9'), ('Name', 'b9')], ('Name', 'b9'), 'paren')], 'call'),
    'push-at-cap': lambda: ('Call', 'push', [('Name', 'big'), ('Val', typed.D('1'))], 'call'),
    'insert-at-cap': lambda: ('Call', 'insert', [('Name', 'big'), ('Val', typed.D('0')), ('Val', typed.D('1'))], 'dot'),
}
FAIL_STMTS = {
    'compound-undefined:+=': lambda: ('Short', 'undef_t9', '+=', ('Val', typed.D('1'))),
    'compound-undefined:-=': lambda: ('Short', 'undef_t9', '-=', ('Val', typed.D('1'))),
    'compound-undefined:*=': lambda: ('Short', 'undef_t9', '*=', ('Val', typed.D('2'))),
    'compound-undefined:/=': lambda: ('Short', 'undef_t9', '/=', ('Val', typed.D('2'))),
    'setitem-at-cap': lambda: ('Call', '__setitem__', [('Name', 'bigd'), ('Val', 'new key'), ('Val', typed.D('1'))], 'stmt'),
    'setitem-list-at-cap': lambda: ('Call', '__setitem__', [('Name', 'big'), ('Val', typed.D('0')), ('Val', typed.D('1'))], 'stmt'),
    'setop-at-cap': lambda: ('Call', '__setitem_with_op__', [('Name', 'big'), ('Val', typed.D('0')), ('Val', '+='), ('Val', typed.D('1'))], 'stmt'),
    'compound-undefined-index': lambda: ('Call', '__setitem_with_op__', [('Name', 'undef_c9'), ('Val', typed.D('0')), ('Val', '+='), ('Val', typed.D('1'))], 'stmt'),
    'del-undefined': lambda: ('Call', '__delitem__', [('Name', 'undef_c9'), ('Val', typed.D('0'))], 'stmt'),
}


def count_slots(e):
    """number of replaceable expression positions in a marked tree"""
    k = e[0]
    if k in ('Name', 'Val'):
        return 1
    if k == 'Bin':
        return 1 + count_slots(e[2]) + count_slots(e[3])
    if k == 'Un':
        return 1 + count_slots(e[2])
    if k == 'If':
        return 1 + sum(count_slots(x) for x in e[1:4])
    if k == 'Dict':
        return 1 + sum(count_slots(a) + count_slots(b) for a, b in e[1])
    if k == 'Lambda':
        return 1 + count_slots(e[2])
    if k == 'Slice':
        return sum(count_slots(x) for x in e[1] if x != ('Val', None))
    if k == 'Call':
        skip_op = e[1] == '__setitem_with_op__'
        return 1 + sum(count_slots(a) for i, a in enumerate(e[2]) if not (skip_op and i == 2))
    raise ValueError(k)


def replace_slot(e, idx, new):
    """replace the idx-th expression position (pre-order) -> (tree, remaining idx or -1 when done)"""
    k = e[0]
    if k == 'Slice':
        parts = []
        for x in e[1]:
            if x == ('Val', None) or idx < 0:
                parts.append(x)
            else:
                x, idx = replace_slot(x, idx, new)
                parts.append(x)
        return ('Slice', parts), idx
    if idx == 0:
        return new, -1
    idx -= 1
    if k in ('Name', 'Val'):
        return e, idx
    if k == 'Bin':
        a, idx = replace_slot(e[2], idx, new)
        b, idx = replace_slot(e[3], idx, new) if idx >= 0 else (e[3], idx)
        return ('Bin', e[1], a, b), idx
    if k == 'Un':
        a, idx = replace_slot(e[2], idx, new)
        return ('Un', e[1], a), idx
    if k == 'If':
        out = []
        for x in e[1:4]:
            if idx >= 0:
                x, idx = replace_slot(x, idx, new)
            out.append(x)
        return ('If',) + tuple(out), idx
    if k == 'Dict':
        items = []
        for a, b in e[1]:
            if idx >= 0:
                a, idx = replace_slot(a, idx, new)
            if idx >= 0:
                b, idx = replace_slot(b, idx, new)
            items.append((a, b))
        return ('Dict', items) + tuple(e[2:]), idx
    if k == 'Lambda':
        body, idx = replace_slot(e[2], idx, new)
        return ('Lambda', e[1], body) + tuple(e[3:]), idx
    if k == 'Call':
        args = []
        skip_op = e[1] == '__setitem_with_op__'
        for i, a in enumerate(e[2]):
            if idx >= 0 and not (skip_op and i == 2):
                a, idx = replace_slot(a, idx, new)
            args.append(a)
        return ('Call', e[1], args) + tuple(e[3:]), idx
    raise ValueError(k)


def stmt_expr_parts(s):
    """a statement as an expression-like tree for slot counting (statement-level nodes are not replaceable themselves)"""
    return s


def run_placed(case):
    """-> (failures, info)"""
    from smartquery import ParserError
    src, env, budget = case['src'], core.dec(case['env']), case.get('budget')
    if case.get('big'):
        env['big'] = list(range(BIG))
        env['bigd'] = {f'k{i}': i for i in range(BIG)}
    p = parser()
    info = {'reached': False, 'discard': False}
    try:
        tree = refparse.parse_text(src)     # the reference runs on the tree the grammar derives, not on the implementation's
    except Exception:  # noqa
        info['discard'] = True
        return [], info
    import copy
    renv = copy.deepcopy(env)
    out, interp = refsem.run(tree, renv, max_ops=budget)
    if out[0] != 'lang':
        return [], info
    info['reached'] = True
    ienv = copy.deepcopy(env)
    try:
        got = p.eval(src, ienv, max_ops_evaluated=budget if budget else 10 ** 6)
        res = ('returned', got)
    except ParserError:
        return [], info
    except RecursionError:
        info['discard'] = True
        return [], info
    except Exception as e:  # noqa
        res = ('raised', e)
    kind = case.get('placed', '?')
    if res[0] == 'returned':
        return [Failure(f'language-failure-not-raised:{kind}', f'{src!r}: the run must end in a language-level failure ({kind}); eval returned {res[1]!r}', case)], info
    e = res[1]
    return [Failure(f'language-failure-as:{type(e).__name__}:{kind}', f'{src!r}: language-level failure ({kind}) surfaced as {type(e).__name__}: {e} '
                                                                      f'(raised in {innermost_frame(e)}), not ParserError', case)], info


UNDEF_WHOLE = ['\u00b2', '\u00b9\u00b2\u00b3', '\u2460', 'x\u00b2', '\u2082', '\u00bd', '\u0663x', '%nosuch.field%', '%.%', '%a.b.c%', '%x y%', '_', '__', 'zz9', '\u00e9', 'True9', 'not9', 'r', 'rx',
               '\u2167', '\u3007', '\U0001d7d8x', '\u0e50a']
AST_FAILS = ['undefined_zz9', 'nofn9(1)', '[][0]', '{}["k"]', '[].pop()', 'u9 += 1', '"abc"[9]', 'map([1], (a, b) => b)', 'x9 = undefined_zz9\nx9']


def run_ast_names(case):
    """a definition passed through ast_names fails at the language level (or exhausts the budget): ParserError"""
    from smartquery import ParserError
    p = parser()
    try:
        defs = {k: p.parse(v) for k, v in case['defs'].items()}
    except Exception:  # noqa
        return [], {'discard': True}
    try:
        got = p.eval(case['src'], {}, ast_names=defs, max_ops_evaluated=case['budget'])
    except ParserError:
        return [], {'discard': False}
    except RecursionError:
        return [], {'discard': True}
    except Exception as e:  # noqa
        return [Failure(f'language-failure-as:{type(e).__name__}:ast_names-definition', f'ast_names {case["defs"]!r}, program {case["src"]!r}, budget {case["budget"]}: '
                        f'{type(e).__name__}: {e} (raised in {innermost_frame(e)}), not ParserError', case)], {'discard': False}
    return [Failure('language-failure-not-raised:ast_names-definition', f'ast_names {case["defs"]!r}: eval returned {got!r}', case)], {'discard': False}


def run_case(case):
    if case.get('kind') == 'ast':
        return run_ast_names(case)[0]
    if case.get('kind') == 'placed':
        return run_placed(case)[0]
    return judge_text(case['text'], case)[0]


# ------------------------------------------------------------------------------------------------ generators
ATOMS = ['\ud800', 'x = 1 + \udc00', '"\udfff"', '&', '&&', 'a &', 'a', 'b1', 'r', 'not', 'in', 'and', 'True', 'del', 'for', 'if', 'else', 'é', '²', '%a b%', '%', '"s"', "'t'", 'r"\\d"', '"', "'",
         '"abc', 'r"', '"\\', '\\', '1', '12.5', '1.', '.5', '+', '-', '*', '**', '/', '=', '==', '!=', '!', '<', '>=', '=>', '+=', '|', '.',
         ',', ':', '(', ')', '[', ']', '{', '}', ';', '\n', '\r\n', '\r', ' ', '\t', '#c', '# x\n', '$', '?', '@', '\x0c', '\xa0', '\x00',
         'x = ', 'f(', 'x[', '{"k": ', 'v => ', 'x += ', 'x.push(', ' if ', ' else ', 'while', 'def ', 'u /= 2', 'q | pop', '[][0]', '{}["k"]']


@hst.composite
def text_cases(draw):
    n = lambda k: draw(hst.integers(0, k - 1))  # noqa
    pick = lambda xs: xs[n(len(xs))]  # noqa
    r = n(10)
    if r < 2:
        return {'kind': 'text', 'family': 'unicode', 'cached': bool(n(2)),
                'text': draw(hst.text(alphabet=hst.characters(codec=None) if n(3) == 0 else hst.characters(), max_size=40))}
    if r < 5:
        return {'kind': 'text', 'family': 'atoms', 'cached': bool(n(2)), 'text': ''.join(pick(ATOMS) for _ in range(1 + n(9)))}
    if n(3) == 0:
        stmts, _e, _l = draw(typed.programs(max_stmts=2, max_depth=2))
    else:
        stmts = draw(sentences.programs(max_depth=3, max_stmts=2))
    try:
        text = '\n'.join(unparse.minimal_stmt(s) for s in stmts)
    except ValueError:
        text = 'x'
    toks = reflex.lex(text)
    if not toks:
        return {'kind': 'text', 'family': 'program', 'text': text}
    t = toks[n(len(toks))]
    m = n(6)
    if m == 0:
        return {'kind': 'text', 'family': 'truncation', 'text': text[:t.pos]}
    if m == 1:
        return {'kind': 'text', 'family': 'truncation-mid-token', 'text': text[:t.pos + 1 + n(max(1, t.end - t.pos))]}
    if m == 2:
        return {'kind': 'text', 'family': 'token-deleted', 'text': text[:t.pos] + text[t.end:]}
    if m == 3:
        return {'kind': 'text', 'family': 'token-inserted', 'text': text[:t.pos] + pick(ATOMS) + ' ' + text[t.pos:]}
    if m == 4:
        return {'kind': 'text', 'family': 'bracket-unbalanced', 'text': text[:t.pos] + pick(['(', '[', '{', ')', ']', '}', '"', "'"]) + text[t.pos:]}
    return {'kind': 'text', 'family': 'program', 'text': text}


@hst.composite
def placed_cases(draw):
    n = lambda k: draw(hst.integers(0, k - 1))  # noqa
    pick = lambda xs: xs[n(len(xs))]  # noqa
    if n(12) == 0:
        bad = pick(AST_FAILS)
        defs = {'ok9': 'v => v'} if n(2) else {}
        defs['h9'] = bad
        if n(3) == 0:
            return {'kind': 'ast', 'placed': 'ast_names-budget', 'defs': {'h9': '[1, 2, 3] | map(v => v * 2)'}, 'src': '1', 'budget': 1 + n(8)}
        return {'kind': 'ast', 'placed': 'ast_names-definition', 'defs': defs, 'src': pick(['1', 'h9', 'ok9(2)']), 'budget': 1000}
    if n(14) == 0:
        # the whole program is one undefined name / call (fast paths for "trivial" programs must fail the same way)
        name = pick(UNDEF_WHOLE)
        src = pick(['{n}', '{n}', ' {n}', '{n} ', '{n}\n', '{n}()', '{n} + 1', '{n}.f9()', '({n})', 'z9 = {n}', '{n} # c']).format(n=name)
        return {'kind': 'placed', 'placed': 'undefined-name-as-whole-program', 'src': src, 'env': core.enc({}), 'big': False, 'budget': None}
    stmts, env, labels = draw(typed.programs(max_stmts=4, max_depth=3, allow_errors=False, regex=False))
    stmts = list(stmts)
    mode = n(10)
    big = False
    budget = None
    if mode < 6:
        kind = pick(sorted(FAIL_EXPRS))
        new = FAIL_EXPRS[kind]()
        si = n(len(stmts))
        s = stmts[si]
        if s[0] == 'Assign':
            total = count_slots(s[2])
            body, _ = replace_slot(s[2], n(total), new)
            stmts[si] = ('Assign', s[1], body)
        elif s[0] == 'Short':
            total = count_slots(s[3])
            body, _ = replace_slot(s[3], n(total), new)
            stmts[si] = ('Short', s[1], s[2], body)
        else:
            total = count_slots(s)
            k = n(total)
            if s[0] == 'Call' and len(s) > 3 and s[3] == 'stmt' and k == 0:
                k = 1 if total > 1 else 0
            if not (s[0] == 'Call' and len(s) > 3 and s[3] == 'stmt' and k == 0):
                stmts[si], _ = replace_slot(s, k, new)
        big = 'cap' in kind
    elif mode < 8:
        kind = pick(sorted(FAIL_STMTS))
        stmts.insert(n(len(stmts) + 1), FAIL_STMTS[kind]())
        big = 'cap' in kind
    else:
        kind = 'budget'
        budget = -(1 + n(60))       # resolved against the number of operations the program needs
    try:
        src = '\n'.join(unparse.full_stmt(s) for s in stmts)
    except ValueError:
        src = 'x'
    return {'kind': 'placed', 'placed': kind, 'src': src, 'env': core.enc(env), 'big': big, 'budget': budget}


# ------------------------------------------------------------------------------------------------ fuzzing
CORPUS_DIR = os.path.join(core.VERIF, 'corpus', 'c16')


def fuzz_job(seed, seconds, use_corpus, max_len=256):
    """run one atheris process; -> Stats"""
    st = Stats()
    work = tempfile.mkdtemp(prefix='sqv-fuzz-', dir='/tmp')
    try:
        art = os.path.join(work, 'artifacts')
        corp = os.path.join(work, 'corpus')
        os.makedirs(art)
        os.makedirs(corp)
        if use_corpus and os.path.isdir(CORPUS_DIR):
            for f in glob.glob(os.path.join(CORPUS_DIR, '*')):
                shutil.copy(f, corp)
        env = dict(os.environ)
        env['SQV_C16_BYSTANDER'] = '1' if seed % 2 == 0 else '0'
        cmd = [sys.executable, '-m', 'sqv.fuzz_c16', art, corp, f'-max_total_time={seconds}', f'-seed={max(1, seed % (2 ** 31))}',
               f'-max_len={max_len}', '-print_final_stats=0', '-verbosity=0', f'-artifact_prefix={art}/',
               f'-dict={os.path.join(core.VERIF, "corpus", "c16.dict")}']
        try:
            pr = subprocess.run(cmd, cwd=core.VERIF, env=env, capture_output=True, text=True, timeout=seconds + 120)
            rc, out = pr.returncode, (pr.stdout + pr.stderr)[-3000:]
        except subprocess.TimeoutExpired:
            rc, out = -9, 'fuzzer process timed out'
        stats_file = os.path.join(art, 'stats.json')
        execs = 0
        if os.path.exists(stats_file):
            try:
                d = json.load(open(stats_file))
                execs = d.get('execs', 0)
                for k, v in d.get('hist', {}).items():
                    st.add('fuzz:' + k, v)
                st.add('fuzz_rejected_inputs_3plus_tokens', d.get('nontrivial', 0))
            except Exception:  # noqa
                pass
        st.add('fuzz_execs', execs)
        st.add('fuzz_processes')
        st.add('fuzz_corpus_size', len(os.listdir(corp)))
        # findings written by the target (one json per signature), then anything libFuzzer saved (crash-*, oom-*, timeout-*)
        seen_inputs = set()
        for f in sorted(glob.glob(os.path.join(art, 'finding-*.json'))):
            try:
                d = json.load(open(f))
            except Exception:  # noqa
                continue
            text = d['text']
            seen_inputs.add(text)
            for fl in judge_text(text, {'kind': 'text', 'family': 'fuzz', 'text': text})[0]:
                st.fail(fl)
        for f in sorted(glob.glob(os.path.join(art, 'crash-*')) + glob.glob(os.path.join(art, 'oom-*')) + glob.glob(os.path.join(art, 'timeout-*'))):
            data = open(f, 'rb').read()
            from sqv.fuzz_c16 import decode
            text = decode(data)
            if text in seen_inputs:
                continue
            fl = judge_text(text, {'kind': 'text', 'family': 'fuzz', 'text': text})[0]
            if fl:
                for x in fl:
                    st.fail(x)
            else:
                st.fail(Failure('fuzzer-artifact:' + os.path.basename(f).split('-')[0],
                                f'libFuzzer saved {os.path.basename(f)} for input {text!r} (process output: {out[-400:]!r})',
                                {'kind': 'text', 'family': 'fuzz', 'text': text}))
        if rc not in (0,) and not st.failures and execs == 0:
            raise core.HarnessError(f'fuzzer process failed (rc={rc}): {out[-1500:]}')
        # fuzz inputs count as evaluations; non-trivial ones are counted by the target (rejected, >= 3 tokens)
        st.evaluations += execs
        return st
    finally:
        shutil.rmtree(work, ignore_errors=True)


def jobs(tier, seed):
    js = []
    secs = 14 if tier == 'quick' else 600
    for i in range(8):
        js.append(('fuzz', core.derive_seed(seed, 'fz', i), secs, i % 2 == 0))
    nt, npl = (1300, 450) if tier == 'quick' else (60000, 38000)
    for i in range(8):
        js.append(('text', core.derive_seed(seed, 'c16t', i), nt))
    for i in range(8):
        js.append(('placed', core.derive_seed(seed, 'c16p', i), npl))
    js.append(('corpus',))
    return js


def run_job(job):
    if job[0] == 'fuzz':
        return fuzz_job(job[1], job[2], job[3])
    st = Stats()
    if job[0] == 'corpus':
        for f in sorted(glob.glob(os.path.join(CORPUS_DIR, '*'))):
            text = open(f, encoding='utf-8', errors='surrogateescape').read()
            fails, info = judge_text(text, {'kind': 'text', 'family': 'corpus', 'text': text}, st)
            st.case(key='corpus:' + text, nontrivial=info['rejected'] and info['tokens'] >= 3, classes=('corpus',))
            for fl in fails:
                st.fail(fl)
        return st
    _, seed, n = job
    _BYSTANDER['want'] = seed % 2 == 0
    st.case(key='bystander:' + str(seed), nontrivial=False, classes=('host:unused-newer-parser-present' if seed % 2 == 0 else 'host:single-parser-pair',))
    if job[0] == 'text':
        def check(case):
            fails, info = judge_text(case['text'], case, st)
            nt = info['rejected'] and (info['tokens'] >= 3 or info['class'] == 'lex-invalid' and len(case['text']) >= 3)
            return hyp.Result(fails, nt, ['family:' + case['family'], 'class:' + info['class']], key=case['text'],
                              sample={'text': case['text'], 'family': case['family'], 'class': info['class']})
        hyp.drive(text_cases(), check, st, seed=seed, max_examples=n)
        return st

    def check_placed(case):
        case = dict(case)
        if case['kind'] == 'ast':
            fails, info = run_ast_names(case)
            if info['discard']:
                return hyp.Result(discard=True)
            return hyp.Result(fails, True, ['placed:' + case['placed']], key=repr(case), sample=case)
        if case['budget'] is not None and case['budget'] < 0:
            # budget = number of operations needed minus a drawn amount (at least 1)
            import copy
            try:
                tree = refparse.parse_text(case['src'])
            except Exception:  # noqa
                return hyp.Result(discard=True)
            out, interp = refsem.run(tree, copy.deepcopy(core.dec(case['env'])))
            if out[0] != 'value' or interp.ops < 2:
                return hyp.Result(discard=True)
            case['budget'] = max(1, interp.ops + 1 + case['budget']) if interp.ops + 1 + case['budget'] >= 1 else 1
            case['budget'] = min(case['budget'], interp.ops)
        fails, info = run_placed(case)
        if info['discard']:
            return hyp.Result(discard=True)
        cls = ['placed:' + case['placed'], 'reached' if info['reached'] else 'not-first-failure']
        return hyp.Result(fails, info['reached'], cls, key=case['src'] + repr(case['budget']) + repr(case['env']),
                          sample={'src': case['src'], 'placed': case['placed'], 'budget': case['budget']})

    hyp.drive(placed_cases(), check_placed, st, seed=seed, max_examples=n)
    return st


def finish(stats, tier):
    return {'fuzz_note': 'fuzz_execs inputs were executed by atheris processes; their exception histogram is under the fuzz:* keys'}
