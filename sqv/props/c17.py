"""C17 - the parse cache is transparent.

Lock-step: one uncached SqParser against cached ones (dict, bounded LRU of capacity 2, always-evicting mapping, a dict
pre-warmed by another parser) driven with the same call sequence and their own deep-equal copies of three names mappings.
"""
import collections
import copy
from collections.abc import MutableMapping
from decimal import Decimal as D

from hypothesis import strategies as hst

from sqv import core, hyp
from sqv.core import Failure, Stats
from sqv.gen import typed
from sqv.spec import unparse
from sqv.spec.neutral import neutral, same_tree
from sqv.values import canon

ID = 'C17'
LEVEL = 'exploration'
RULE = ('Hypothesis call sequences (2-30 calls of parse(src) / eval(src, names_i, budget)) over a pool of fixed sources and '
        'generated typed programs (every operator, literal form, slice, conditional, lambda and builtin) with '
        'repeats, near-duplicates differing only in surrounding whitespace (space, tab, \\n, \\r\\n and the characters str.strip '
        'removes but the lexer rejects: \\r, \\x0c, NBSP), failing sources (syntax, lexical, runtime, ops-limit, reserved word) '
        'that later succeed under other names or budgets, names that shadow builtins; the host changes module-level settings of '
        'the library (CAST_DICT_KEYS_TO_STRINGS, MAX_ARRAY_SIZE, REGEX_TIMEOUT) between calls; after every call the host mutates every '
        'mutable result in all worlds. Worlds: no cache, dict, LRU(2), always-evicting, pre-warmed dict. Oracle per call: equal '
        'result / exception class and message / names / parsed tree across all worlds; a deep snapshot (all attributes) of '
        'every cached tree is unchanged by every eval. Non-trivial: some source is used >= 2 times with different names, or '
        'after a near-duplicate or failing variant; distinct by sequence.')
ASSUMPTIONS = ['the cache mappings are well-behaved MutableMappings (what they report as contained they return)']

BASE = ['{1: x, 2.0: y}', 'q = {1: 1}\nq[2] = x\nq', 'y.push(1)\ny.push(2)\ny.push(3)\ny.push(4)\nlen(y)', 'fz9(1)', 'fz9(x) if x != "str" else 0', 'x + 1', 'len(y)', 'y.push(1)\ny', 'z = x\nz', 'undefined_q', '1 +', 'f = v => v + x\nf(2)', 'max(x, 2)', 'len = 3\nlen',
        'd["k"]', '[x, [x]]', '{"a": y}', 'x / 0', 'for', 'y[5]', 'x if x > 2 else y', 'sorted(y)', 'g(1)', '', '# c', 'x;;y',
        'y | map(v => v * 2) | sum', 'x = x + 1\nx', 'len([1, 2, 3])', 'str(x) + "!"', 'd["n"] = y\nd', 'min(y)', '$', 'del d["k"]\nd',
        'y += [x]\ny', 'h = [1]\nh.push(h)\nlen(h)', '[]', '{}', 'x if False else []', 'get(d, "zz", [])', '[[], {}]', 'q = []\nq',
        'f = v => f(v + 1)\nf(0)', 'y | map(v => v / 0)', '%a b% + 1', '%a  b% + 1', '%a\tb% + 1', 'a b', 'x = 1\ny y', 'z = 1\nz +* 2', 'x = 2; y y', 'r = []\nr.push([])\nr[0].push(x)\nr']
WS = ['', '', '', ' ', '\t', '\n', '\r\n', '\r', '\x0c', '\xa0', '  \n', ';']
BUDGETS = [100, 100, 100, 10 ** 6, 6, 3, 1]


class LRU(MutableMapping):
    def __init__(self, cap=2):
        self.cap = cap
        self.d = collections.OrderedDict()

    def __getitem__(self, k):
        v = self.d[k]
        self.d.move_to_end(k)
        return v

    def __setitem__(self, k, v):
        self.d[k] = v
        self.d.move_to_end(k)
        while len(self.d) > self.cap:
            self.d.popitem(last=False)

    def __delitem__(self, k):
        del self.d[k]

    def __iter__(self):
        return iter(self.d)

    def __len__(self):
        return len(self.d)

    def __contains__(self, k):
        return k in self.d


class Evicting(MutableMapping):
    """stores nothing"""

    def __getitem__(self, k):
        raise KeyError(k)

    def __setitem__(self, k, v):
        pass

    def __delitem__(self, k):
        raise KeyError(k)

    def __iter__(self):
        return iter(())

    def __len__(self):
        return 0

    def __contains__(self, k):
        return False


_worlds = None


def worlds():
    global _worlds
    if _worlds is None:
        from smartquery import SqParser
        _worlds = {name: SqParser() for name in ('none', 'dict', 'lru2', 'evicting', 'prewarmed', 'weak', 'warmer')}
    return _worlds


def host_fn(v=None):
    return D(99)


def make_names(extra=None):
    base = _base_names()
    if extra:
        import copy
        for m in base:
            for k, v in extra.items():
                m.setdefault(k, copy.deepcopy(v))
    return base


def _base_names():
    return [
        {'x': D(5), 'y': [D(3), D(1)], 'd': {'k': D(1)}, '%a b%': D(1), '%a  b%': D(2)},
        {'x': D(1), 'y': [], 'd': {}, 'len': host_fn, 'g': host_fn},
        {'x': 'str', 'y': ['b', 'a'], 'd': {'k': [D(1)]}, 'max': D(3)},
    ]


def deep_attrs(node, depth=0, seen=None):
    """snapshot of a tree including attributes that are not dataclass fields"""
    if seen is None:
        seen = set()
    if depth > 60:
        return 'deep'
    if isinstance(node, (list, tuple)):
        return [deep_attrs(x, depth + 1, seen) for x in node]
    if isinstance(node, dict):
        return {repr(k): deep_attrs(v, depth + 1, seen) for k, v in node.items()}
    if hasattr(node, '__dict__') and not callable(node):
        if id(node) in seen:
            return 'cycle'
        seen.add(id(node))
        try:
            return (type(node).__name__, {k: deep_attrs(v, depth + 1, seen) for k, v in sorted(vars(node).items())})
        finally:
            seen.discard(id(node))
    if callable(node):
        return 'callable:' + getattr(node, '__name__', '?')
    return repr(node)


def cache_snapshot(cache):
    try:
        return {k: deep_attrs(cache[k]) for k in list(cache)}
    except Exception as e:  # noqa
        return {'<unreadable>': repr(e)}


def outcome_of(fn):
    try:
        return ('value', fn())
    except RecursionError:
        return ('recursion', None)
    except Exception as e:  # noqa
        return ('error', f'{type(e).__name__}: {e}')


def mutate_result(v):
    if isinstance(v, list):
        v.append('HOST')
    elif isinstance(v, dict):
        v['host'] = D(1)


SETTINGS = {'CAST_DICT_KEYS_TO_STRINGS': [True, False], 'MAX_ARRAY_SIZE': [10000, 3], 'REGEX_TIMEOUT': [0.05, 0.5]}


def run_sequence(ops, case):
    """-> (failures, info)"""
    import smartquery.functions as Fn
    saved = {k: getattr(Fn, k) for k in SETTINGS if hasattr(Fn, k)}
    try:
        return _run_sequence(ops, case)
    finally:
        for k, v in saved.items():
            setattr(Fn, k, v)


def _run_sequence(ops, case):
    W = worlds()
    pool_sources = sorted({op[1] for op in ops if op[0] != 'setting'})
    import weakref
    caches = {'none': None, 'dict': {}, 'lru2': LRU(2), 'evicting': Evicting(), 'prewarmed': {}, 'weak': weakref.WeakValueDictionary()}
    for src in pool_sources:
        try:
            caches['prewarmed'][src] = W['warmer'].parse(src)
        except Exception:  # noqa
            pass
    names = {}
    for wname in caches:
        W[wname].parse_cache = caches[wname]
        names[wname] = make_names(core.dec(case['env']) if case.get('env') else None)
    fails = []
    info = {'calls': 0, 'failing_calls': 0}

    def bad(sig, msg):
        fails.append(Failure(sig, msg[:1400], case))

    import smartquery.functions as Fn
    for step, op in enumerate(ops):
        kind, src = op[0], op[1]
        if kind == 'setting':
            # the host changes a module-level setting of the library between calls (it applies to every parser alike)
            setattr(Fn, op[1], op[2])
            continue
        results = {}
        for wname in caches:
            p = W[wname]
            before = cache_snapshot(caches[wname]) if caches[wname] is not None else None
            if kind == 'parse':
                out = outcome_of(lambda: p.parse(src))
                if out[0] == 'value':
                    out = ('value', neutral(out[1]))
            else:
                nm = names[wname][op[2]]
                if len(op) > 4 and op[4]:
                    from smartquery.ast_ops import LambdaOp, NameOp, BinOp, ValueOp
                    body = BinOp('+', NameOp('v'), ValueOp(D(op[4])))
                    out = outcome_of(lambda: p.eval(src, nm, ast_names={'fz9': LambdaOp([NameOp('v')], body)}, max_ops_evaluated=op[3]))
                    nm.pop('fz9', None)
                else:
                    out = outcome_of(lambda: p.eval(src, nm, max_ops_evaluated=op[3]))
                if caches[wname] is not None:
                    after = cache_snapshot(caches[wname])
                    changed = [k for k in before if k in after and before[k] != after[k]]
                    if changed:
                        bad('eval-altered-cached-tree', f'world {wname}: step {step} eval({src!r}) changed the cached tree of {changed[0]!r}: '
                                                        f'{before[changed[0]]!r} -> {after[changed[0]]!r}')
                        return fails, info
            results[wname] = out
        info['calls'] += 1
        ref = results['none']
        if ref[0] == 'recursion':
            break
        if ref[0] == 'error':
            info['failing_calls'] += 1
        for wname, out in results.items():
            if wname == 'none':
                continue
            same = out[0] == ref[0] and (
                (out[0] == 'error' and out[1] == ref[1]) or
                (out[0] == 'value' and kind == 'parse' and same_tree(out[1], ref[1])) or
                (out[0] == 'value' and kind == 'eval' and canon(out[1]) == canon(ref[1])))
            if not same:
                bad(f'differs:{wname}:{kind}', f'step {step} {kind}({src!r}' + (f', names{op[2]}, budget {op[3]}' if kind == 'eval' else '') +
                    f'): uncached {ref!r}, cache "{wname}" {out!r}; sequence {ops[:step + 1]!r}')
                return fails, info
            if kind == 'eval':
                a = [(k, canon(v)) for k, v in names[wname][op[2]].items()]
                b = [(k, canon(v)) for k, v in names['none'][op[2]].items()]
                if a != b:
                    bad(f'names-differ:{wname}', f'step {step} eval({src!r}): names uncached {names["none"][op[2]]!r}, cache "{wname}" {names[wname][op[2]]!r}')
                    return fails, info
        # the host mutates every mutable result in all worlds
        if kind == 'eval':
            for wname, out in results.items():
                if out[0] == 'value':
                    mutate_result(out[1])
    return fails, info


def run_case(case):
    ops = [tuple(o) for o in case['ops']]
    return run_sequence(ops, case)[0]


@hst.composite
def cases(draw):
    n = lambda k: draw(hst.integers(0, k - 1))  # noqa
    pick = lambda xs: xs[n(len(xs))]  # noqa
    pool = []
    env = None
    for _ in range(1 + n(4)):
        if n(2):
            pool.append(pick(BASE))
        else:
            # a generated program: every operator, literal form (multi-entry dicts, nested lists), slice, conditional and builtin
            stmts, env0, _ = draw(typed.programs(max_stmts=3, max_depth=3, regex=False))
            env = env or env0
            try:
                render = unparse.minimal_stmt if n(2) else unparse.full_stmt
                pool.append('\n'.join(render(s) for s in stmts))
            except ValueError:
                pool.append(pick(BASE))
    ops = []
    for _ in range(2 + n(29)):
        src = pick(pool)
        src = pick(WS) + src + pick(WS)
        if n(12) == 0:
            import smartquery.functions as Fn
            name = pick(sorted(k for k in SETTINGS if hasattr(Fn, k)) or ['CAST_DICT_KEYS_TO_STRINGS'])
            ops.append(('setting', name, pick(SETTINGS[name])))
        if n(4) == 0:
            ops.append(('parse', src))
        else:
            ops.append(('eval', src, n(3), pick(BUDGETS), pick([0, 0, 0, 7, 8])))
    return {'ops': ops, 'env': core.enc(env) if env else None}


def nontrivial(ops):
    seen = {}
    for op in ops:
        if op[0] == 'setting':
            continue
        key = op[1].strip()
        ctx = op[2:] if op[0] == 'eval' else ('parse',)
        if key in seen and (ctx not in seen[key][0] or op[1] not in seen[key][1]):
            return True
        seen.setdefault(key, (set(), set()))
        seen[key][0].add(ctx)
        seen[key][1].add(op[1])
    return False


def jobs(tier, seed):
    per = 260 if tier == 'quick' else 9000
    return [(core.derive_seed(seed, 'c17', i), per) for i in range(16)]


def run_job(job):
    seed, n = job
    st = Stats()

    def check(case):
        ops = [tuple(o) for o in case['ops']]
        fails, info = run_sequence(ops, case)
        st.add('calls', info['calls'] * 5)
        st.add('failing_calls', info['failing_calls'])
        return hyp.Result(fails, nontrivial(ops), ['len:%d' % (len(ops) // 10 * 10)], key=repr(ops),
                          sample={'ops': [list(o) for o in ops][:12]})

    hyp.drive(cases(), check, st, seed=seed, max_examples=n)
    return st
