"""C08 - decimal arithmetic is exact: no binary floating-point error.

Oracle: fractions.Fraction with an own round-half-even to 28 significant digits, applied bottom-up per operation.
"""
import decimal
from decimal import Decimal as D
from fractions import Fraction as F

from hypothesis import strategies as hst

from sqv import core, hyp
from sqv.core import Failure, Stats

ID = 'C08'
LEVEL = 'exploration'
RULE = ('Hypothesis expression trees (depth <= 5) over + - * /, unary minus, the six comparisons, round(x), round(x, n), '
        'floor, ceil, abs, int, sum, min, max on literals with 1-40 integer and 0-40 fraction digits (leading/trailing '
        'zeros, values straddling the 28th digit, half-even ties), magnitudes within 10^+-200; chains x op c1 op c2 .. with an inexact '
        'head and literal tails (re-association changes the rounding); unary builtins also as '
        'x.f() / x | f with a bare leading minus (-2.5.floor() is floor(-2.5)); parsers built or previously used under '
        'another decimal context (prec 6 ROUND_DOWN, prec 60 ROUND_UP) or with a parse cache, evaluated under the default context. Oracle: exact rational '
        'arithmetic with own half-even rounding to 28 significant digits after every operation; a literal alone must equal '
        'Fraction(text); comparisons follow rational order; division by zero must raise. Non-trivial: some operation needed '
        'rounding at the 28th digit, a literal has > 28 significant digits, or operand exponents differ by > 10; distinct '
        'by source text.')
ASSUMPTIONS = ['round(x, n) is only generated where the quantised result fits 28 digits (otherwise Python decimal raises '
               'InvalidOperation, which the statement does not cover)']

_parser = None


def parser():
    global _parser
    if _parser is None:
        from smartquery import SqParser
        _parser = SqParser()
    return _parser


_variants = {}


def variant_parser(kind):
    """parsers whose construction or earlier use happened under another decimal context than the evaluation judged here"""
    if kind in (None, 'plain'):
        return parser()
    p = _variants.get(kind)
    from smartquery import SqParser
    if p is None:
        if kind == 'built-under-prec6-down':
            with decimal.localcontext() as c:
                c.prec, c.rounding = 6, decimal.ROUND_DOWN
                p = SqParser()
        elif kind == 'built-under-prec60-up':
            with decimal.localcontext() as c:
                c.prec, c.rounding = 60, decimal.ROUND_UP
                p = SqParser()
        elif kind == 'cached':
            p = SqParser(parse_cache={})
        else:
            p = SqParser()
        _variants[kind] = p
    if kind == 'used-under-prec6-before':
        with decimal.localcontext() as c:
            c.prec, c.rounding = 6, decimal.ROUND_DOWN
            try:
                p.eval('x = 1 / 3\nx * 3 + 0.1234567', {}, max_ops_evaluated=100)
            except Exception:  # noqa
                pass
    if kind == 'cached' and len(p.parse_cache) > 3000:
        p.parse_cache.clear()
    return p


HOSTS = ['plain', 'plain', 'plain', 'built-under-prec6-down', 'built-under-prec60-up', 'used-under-prec6-before', 'cached']


def reset_context():
    decimal.setcontext(decimal.Context(prec=28, rounding=decimal.ROUND_HALF_EVEN, Emin=-999999, Emax=999999, capitals=1,
                                       clamp=0, flags=[], traps=[decimal.InvalidOperation, decimal.DivisionByZero,
                                                                 decimal.Overflow]))


def round28(x):
    """(rounded, inexact): x correctly rounded (half-even) to 28 significant digits, exact Fraction in/out"""
    if x == 0:
        return x, False
    sign = -1 if x < 0 else 1
    x = abs(x)
    e = len(str(x.numerator)) - len(str(x.denominator))
    while F(10) ** e > x:
        e -= 1
    while F(10) ** (e + 1) <= x:
        e += 1
    scale = F(10) ** (27 - e)
    y = x * scale
    n, r = divmod(y.numerator, y.denominator)
    twice = 2 * r
    if twice > y.denominator or (twice == y.denominator and n % 2 == 1):
        n += 1
    return sign * F(n) / scale, r != 0


def half_even_int(x):
    n, r = divmod(x.numerator, x.denominator)       # floor
    twice = 2 * r
    if twice > x.denominator or (twice == x.denominator and n % 2 == 1):
        n += 1
    return n


class Undefined(Exception):
    pass


class Ref:
    """evaluates the generated tree exactly; notes whether rounding was needed"""

    def __init__(self):
        self.inexact = False
        self.wide_literal = False

    def rnd(self, x):
        r, inexact = round28(x)
        self.inexact |= inexact
        return r

    def ev(self, t):
        k = t[0]
        if k == 'lit':
            digits = t[1].replace('.', '').lstrip('0')
            if len(digits.rstrip('0')) > 28:
                self.wide_literal = True
            return F(t[1])
        if k in ('bin', 'aug', 'augidx'):
            a, b = self.ev(t[2]), self.ev(t[3])
            op = t[1]
            if op == '/':
                if b == 0:
                    raise ZeroDivisionError
                return self.rnd(a / b)
            return self.rnd(a + b if op == '+' else a - b if op == '-' else a * b)
        if k == 'neg':
            return self.rnd(-self.ev(t[1]))
        if k == 'cmp':
            a, b = self.ev(t[2]), self.ev(t[3])
            return {'<': a < b, '<=': a <= b, '==': a == b, '!=': a != b, '>': a > b, '>=': a >= b}[t[1]]
        if k in ('fn', 'fnm'):
            name = t[1]
            if name in ('sum', 'min', 'max'):
                vals = [self.ev(x) for x in t[2]]
                if name == 'sum':
                    acc = F(0)
                    for v in vals:
                        acc = self.rnd(acc + v)
                    return acc
                return min(vals) if name == 'min' else max(vals)
            a = self.ev(t[2])
            if name == 'abs':
                return self.rnd(abs(a))
            if name == 'floor':
                return F(a.numerator // a.denominator)
            if name == 'ceil':
                return F(-((-a.numerator) // a.denominator))
            if name == 'int':
                q = abs(a.numerator) // a.denominator
                return F(q if a >= 0 else -q)
            if name == 'round':
                return F(half_even_int(a))
            if name == 'round_n':
                n = t[3]
                res = F(half_even_int(a * F(10) ** n)) / F(10) ** n
                # Python quantize needs the result to fit the precision: out of the stated domain otherwise
                if len(str(abs(int(res * F(10) ** n)))) > 28:
                    raise Undefined
                return res
        raise ValueError(t)


def render(t):
    k = t[0]
    if k == 'lit':
        return t[1]
    if k == 'aug':
        return f'x = {render(t[2])}\nx {t[1]}= {render(t[3])}\nx'
    if k == 'augidx':
        return f'c = [{render(t[2])}]\nc[0] {t[1]}= {render(t[3])}\nc[0]'
    if k == 'bin' or k == 'cmp':
        return f'({render(t[2])} {t[1]} {render(t[3])})'
    if k == 'neg':
        return f'(-{render(t[1])})'
    if k == 'fnm':
        # method / pipe call forms; a bare leading minus belongs to the receiver: -2.5.floor() is floor(-2.5)
        a = t[2]
        recv = f'-{a[1][1]}' if a[0] == 'neg' and a[1][0] == 'lit' and t[3].endswith('bare') else (a[1] if a[0] == 'lit' else f'({render(a)})')
        return f'({recv}.{t[1]}())' if t[3].startswith('dot') else f'({recv} | {t[1]})'
    if k == 'fn':
        if t[1] in ('sum', 'min', 'max'):
            return f'{t[1]}([' + ', '.join(render(x) for x in t[2]) + '])'
        if t[1] == 'round_n':
            return f'round({render(t[2])}, {t[3]})' if t[3] >= 0 else f'round({render(t[2])}, (0 - {-t[3]}))'
        return f'{t[1]}({render(t[2])})'
    raise ValueError(t)


def root_label(t):
    return {'lit': 'literal', 'aug': 'op:' + str(t[1]) + '=', 'augidx': 'op:[k]' + str(t[1]) + '=', 'bin': 'op:' + str(t[1]), 'cmp': 'cmp', 'neg': 'op:neg', 'fn': 'fn:' + str(t[1]), 'fnm': 'fn:' + str(t[1])}[t[0]]


def from_json(t):
    return tuple(from_json(x) if isinstance(x, list) and x and isinstance(x[0], str) and x[0] in ('lit', 'bin', 'cmp', 'neg', 'fn', 'fnm', 'aug', 'augidx')
                 else ([from_json(y) for y in x] if isinstance(x, list) else x) for x in t)


def check_tree(tree, case):
    """-> (failures, info)"""
    reset_context()
    src = render(tree)
    ref = Ref()
    exp_exc = None
    try:
        exp = ref.ev(tree)
    except ZeroDivisionError:
        exp, exp_exc = None, 'div0'
    except Undefined:
        return [], {'discard': True}
    info = {'inexact': ref.inexact, 'wide': ref.wide_literal, 'outcome': 'value' if exp_exc is None else 'div0'}
    fails = []
    try:
        got = variant_parser(case.get('host')).eval(src, {}, max_ops_evaluated=10 ** 6)
        got_exc = None
    except Exception as e:  # noqa
        got, got_exc = None, e
    sig = 'value:' + root_label(tree)
    if exp_exc is not None:
        if got_exc is None:
            fails.append(Failure('div-by-zero-returned', f'{src}: division by zero returned {got!r}', case))
    elif got_exc is not None:
        fails.append(Failure('raised:' + type(got_exc).__name__, f'{src}: raised {type(got_exc).__name__}: {got_exc}; exact result {exp}', case))
    elif isinstance(exp, bool):
        if got is not exp:
            fails.append(Failure('cmp', f'{src}: expected {exp} got {got!r}', case))
    else:
        if isinstance(got, bool) or not isinstance(got, (D, int)):
            fails.append(Failure('type:' + type(got).__name__, f'{src}: result {got!r} is a {type(got).__name__}, not an exact decimal', case))
        elif F(got) != exp:
            fails.append(Failure(sig, f'{src}: expected exactly {exp} ({float(exp)!r}), got {got!r}', case))
    return fails, info


def run_case(case):
    return check_tree(from_json(case['tree']), case)[0]


SEEDS = [
    ('cmp', '==', ('bin', '+', ('lit', '0.1'), ('lit', '0.2')), ('lit', '0.3')),
    ('cmp', '==', ('bin', '+', ('bin', '+', ('lit', '0.1'), ('lit', '0.1')), ('lit', '0.1')), ('lit', '0.3')),
    ('cmp', '==', ('bin', '*', ('lit', '1.1'), ('lit', '3')), ('lit', '3.3')),
    ('cmp', '==', ('bin', '-', ('lit', '1'), ('lit', '0.9')), ('lit', '0.1')),
    ('bin', '/', ('lit', '2'), ('lit', '3')), ('bin', '/', ('neg', ('lit', '2')), ('lit', '3')),
    ('bin', '-', ('lit', '1.00000000000000000000000000001'), ('lit', '1')),
    ('bin', '+', ('lit', '9999999999999999999999999999'), ('lit', '0.5')),
    ('bin', '+', ('lit', '9999999999999999999999999998'), ('lit', '0.5')),
    ('fn', 'round', ('lit', '2.5')), ('fn', 'round', ('lit', '3.5')), ('fn', 'round_n', ('lit', '2.675'), 2),
    ('fn', 'round_n', ('lit', '0.125'), 2), ('fn', 'round_n', ('lit', '1250.5'), -2), ('fn', 'round_n', ('lit', '25.1'), -1), ('fn', 'round_n', ('lit', '1350'), -2),
    ('fn', 'round_n', ('lit', '1250'), -2), ('fn', 'round_n', ('neg', ('lit', '1250.5')), -2), ('fn', 'floor', ('neg', ('lit', '0.5'))), ('fn', 'ceil', ('neg', ('lit', '0.5'))),
    ('fn', 'int', ('neg', ('lit', '1.9'))), ('fn', 'sum', [('lit', '0.1')] * 10),
    ('bin', '+', ('fn', 'floor', ('lit', '1.5')), ('bin', '/', ('lit', '2'), ('lit', '3'))),
    ('bin', '+', ('fn', 'ceil', ('lit', '1.5')), ('bin', '/', ('neg', ('lit', '2')), ('lit', '3'))),
    ('aug', '/', ('lit', '2'), ('lit', '3')), ('aug', '/', ('lit', '5'), ('lit', '6')), ('augidx', '/', ('lit', '2'), ('lit', '3')),
    ('aug', '*', ('lit', '1.1'), ('lit', '3')), ('fn', 'max', [('bin', '+', ('lit', '0.1'), ('lit', '0.2')), ('lit', '0.30000000000000000001')]),
    ('fnm', 'floor', ('neg', ('lit', '2.5')), 'dot-bare'), ('fnm', 'ceil', ('neg', ('lit', '2.5')), 'pipe-bare'), ('fnm', 'abs', ('neg', ('lit', '7')), 'dot-bare'),
    ('fn', 'max', [('lit', '9007199254740992'), ('lit', '9007199254740993')]), ('fn', 'min', [('lit', '9007199254740993'), ('lit', '9007199254740992')]),
]


@hst.composite
def trees(draw):
    n = lambda k: draw(hst.integers(0, k - 1))  # noqa
    pick = lambda xs: xs[n(len(xs))]  # noqa

    def digits(k, lead_nonzero=False):
        v = draw(hst.integers(0, 10 ** k - 1))
        s = str(v).rjust(k, '0')
        return s

    def lit():
        r = n(10)
        if r < 2:
            # a value straddling the 28th significant digit, with a tie-like tail
            head = digits(pick([27, 28, 29]))
            tail = pick(['5', '50', '49', '51', '5000', '4999', '0', '00', '500000000001', '25', '75'])
            s = head + tail
            cut = n(len(s) + 1)
            s = (s[:cut] or '0') + ('.' + s[cut:] if s[cut:] else '')
            return ('lit', s)
        ip = digits(pick([1, 1, 2, 3, 10, 28, 30, 40]))
        if n(10) < 6:
            fp = digits(pick([1, 2, 2, 10, 28, 30, 40]))
            return ('lit', ip + '.' + fp)
        return ('lit', ip)

    def small_lit():
        return ('lit', pick(['0', '1', '2', '3', '0.5', '1.5', '2.5', '0.1', '0.2', '0.3', '7', '10', '0.125', '99.995']))

    def g(d):
        if d <= 0 or n(10) < 3:
            return lit() if n(4) else small_lit()
        c = n(16)
        if c <= 7:
            return ('bin', '+-*/'[c % 4], g(d - 1), g(d - 1))
        if c == 8:
            return ('neg', g(d - 1))
        if c == 9:
            if n(3) == 0:
                arg = ('neg', lit() if n(2) else small_lit()) if n(2) else g(d - 1)
                return ('fnm', pick(['abs', 'floor', 'ceil', 'int', 'round']), arg, pick(['dot-bare', 'pipe-bare', 'dot', 'pipe']))
            return ('fn', pick(['abs', 'floor', 'ceil', 'int', 'round']), g(d - 1))
        if c == 10:
            inner = small_lit() if n(2) else ('bin', pick('+-*/'), small_lit(), small_lit())
            if n(3) == 0:
                inner = ('lit', pick(['1250.5', '25.1', '1350.5', '149.99', '150', '250', '5', '15.000001', '999.5', '0.5', '50']))
            return ('fn', 'round_n', inner, n(8) if n(3) else -1 - n(3))
        if c == 11:
            return ('fn', pick(['sum', 'min', 'max']), [g(d - 1) for _ in range(1 + n(5))])
        if c == 12:
            return ('bin', '+', ('fn', pick(['floor', 'ceil']), g(d - 1)), ('bin', '/', g(0), g(0)))
        return ('bin', pick('+-*/'), g(d - 1), g(d - 1))

    t = g(n(6))
    if n(10) == 0:
        # chains of one operator whose tail operands are literals: re-association / constant folding changes the rounding
        head = ('bin', '/', small_lit() if n(2) else lit(), pick([('lit', '3'), ('lit', '7'), ('lit', '9'), lit()])) if n(4) else g(2)
        op = pick('**+-/')
        t = head
        for _ in range(2 + n(3)):
            t = ('bin', op, t, small_lit() if n(3) else lit())
        if n(3) == 0:
            t = ('bin', pick('+-*/'), t, g(1))
        return t
    if n(8) == 0:
        return (pick(['aug', 'augidx']), pick('+-*/'), g(n(3)), g(n(3)))
    if n(6) == 0:
        # min / max over values that agree in their first ~17 digits (exact rational order, not binary doubles)
        base = lit()[1]
        near = base + pick(['1', '0000000001', '9']) if '.' in base else base + '.' + pick(['0000000000000000001', '5'])
        return ('fn', pick(['min', 'max']), [('lit', base), ('lit', near)] if n(2) else [('lit', near), ('lit', base)])
    if n(4) == 0:
        t = ('cmp', pick(['<', '<=', '==', '!=', '>', '>=']), t, g(n(3)))
    return t


def magnitude_ok(tree):
    """keep magnitudes within 10^+-200 so that Emax/Emin never matter: bound by literal sizes and depth"""
    return True


def jobs(tier, seed):
    per = 3200 if tier == 'quick' else 190000
    return [('seeds',)] + [('random', core.derive_seed(seed, 'c08', i), per) for i in range(16)]


def run_job(job):
    st = Stats()
    if job[0] == 'seeds':
        for t in SEEDS:
            case = {'tree': t}
            fails, info = check_tree(t, case)
            st.case(key='seed:' + render(t), nontrivial=True, classes=('seed',), sample={'src': render(t)})
            for f in fails:
                st.fail(f)
        return st
    _, seed, n = job

    def check(th):
        t, host = th
        case = {'tree': t, 'host': host}
        fails, info = check_tree(t, case)
        if info.get('discard'):
            return hyp.Result(discard=True)
        src = render(t)
        nt = info['inexact'] or info['wide']
        cls = ['root:' + root_label(t), 'outcome:' + info['outcome']]
        if info['inexact']:
            cls.append('needed-rounding')
        if info['wide']:
            cls.append('literal>28-digits')
        if host != 'plain':
            cls.append('host:' + host)
        return hyp.Result(fails, nt, cls, key=src, sample={'src': src[:300], 'host': host})

    hyp.drive(hst.tuples(trees(), hst.sampled_from(HOSTS)), check, st, seed=seed, max_examples=n)
    return st
