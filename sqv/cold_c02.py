"""C02 cold-start audit: a fresh interpreter in which nothing was evaluated before.

python -m sqv.cold_c02  -> JSON on stdout: {'flagged': [[event, detail, program]], 'tally': {...}, 'programs': n}
The audit hook is armed before the very first eval, so import / file activity that a builtin performs lazily on its first
use inside eval() is observed (a warm harness would never see it).
"""
import json
import os
import sys


def main():
    import smartquery
    from smartquery import SqParser
    import smartquery.functions as Fn
    from sqv.audit import AUDIT, Veto
    p = SqParser()
    AUDIT.install(os.path.dirname(smartquery.__file__))
    programs = ['1 + 2 * 3 / 4 - 2 ** 2', 'x = [1, 2]\nx.push(3)\n{"a": x}["a"][0]', 'f = v => v + 1\n[1, 2] | map(f) | sum']
    args = {
        'len': '[1]', 'int': '"3"', 'float': '"1.5"', 'str': '1', 'dict': '', 'list': '1, 2', 'startswith': '"ab", "a"', 'endswith': '"ab", "b"',
        'lower': '"A"', 'upper': '"a"', 'strip': '" a "', 'replace': '"aa", "a", "b"', 'match': '"ab12", "\\\\d+", "i"',
        'match_groups': '"ab", "(a)(b)"', 'match_all': '"a1b2", "\\\\d"', 'pretty': '{"a": 1}', 'keys': '{"a": 1}', 'values': '{"a": 1}',
        'items': '{"a": 1}', 'sum': '[1, 2]', 'get': '{"a": 1}, "a"', '__getitem__': '[1], 0', '__delitem__': '[1], 0', '__setitem__': '[1], 0, 2',
        '__setitem_with_op__': '[1], 0, "+=", 2', 'map': '[1], v => v', 'filter': '[1], v => True', 'reduce': '[1, 2], (a, b) => a + b',
        'join': '[1, 2], ","', 'split': '"a b"', 'round': '2.567, 2', 'floor': '1.5', 'ceil': '1.5', 'abs': '0 - 1', 'min': '[1, 2]', 'max': '[1, 2]',
        'rand': '1, 3', 'push': '[1], 2', 'pop': '[1]', 'insert': '[1], 0, 2', 'remove': '[1], 1', 'sorted': '[2, 1], v => v, True',
        'reversed': '[1, 2]', 'enumerate': '[1, 2]', 'shuffle': '[1, 2, 3]', 'index_of': '[1, 2], 2',
    }
    for name in sorted(Fn.FUNCTIONS):
        programs.append(f'{name}({args.get(name, "1")})')
        programs.append(f'{name}("__class__", "os", [1], {{"a": 1}})')
    flagged = []
    for src in programs:
        AUDIT.flagged.clear()
        AUDIT.armed = True
        try:
            p.eval(src, {}, max_ops_evaluated=1000)
        except Veto:
            pass
        except Exception:  # noqa
            pass
        finally:
            AUDIT.armed = False
        for ev, detail in AUDIT.flagged:
            flagged.append([ev, detail, src])
    json.dump({'flagged': flagged, 'tally': dict(AUDIT.tally), 'programs': len(programs)}, sys.stdout)


if __name__ == '__main__':
    main()
