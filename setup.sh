#!/bin/bash
# Offline setup: make hypothesis (and atheris for C16) importable by /venv/bin/python.
# Installs from the local wheelhouse into /verif/.deps only when something is missing.
set -u
cd "$(dirname "$0")"
PY=/venv/bin/python
WH=/opt/veriftools/wheels
mkdir -p .deps
need=""
PYTHONPATH=.deps $PY -c "import hypothesis" 2>/dev/null || need="$need hypothesis"
PYTHONPATH=.deps $PY -c "import atheris" 2>/dev/null || need="$need atheris"
if [ -n "$need" ]; then
  PIP_NO_INDEX=1 $PY -m pip install --quiet --no-index --find-links "$WH" --target .deps $need 2>&1 | tail -3
fi
PYTHONPATH=.deps $PY -c "import hypothesis; print('hypothesis', hypothesis.__version__)" || exit 1
PYTHONPATH=.deps $PY -c "import atheris; print('atheris ok')" || echo "atheris unavailable (C16 falls back to Hypothesis-only)"
exit 0
