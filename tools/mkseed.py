#!/usr/bin/env python3
"""tools/mkseed.py <ID> <name> <json-case> [note]  -> replays/seed/<ID>/<name>.json (witness that must pass)"""
import json, os, sys
HERE = os.path.dirname(os.path.dirname(os.path.abspath(__file__)))
pid, name, case = sys.argv[1], sys.argv[2], json.loads(sys.argv[3])
note = sys.argv[4] if len(sys.argv) > 4 else ''
d = os.path.join(HERE, 'replays', 'seed', pid)
os.makedirs(d, exist_ok=True)
json.dump({'property': pid, 'signature': 'seed', 'message': note, 'case': case}, open(os.path.join(d, name + '.json'), 'w'), indent=1)
print(os.path.join(d, name + '.json'))
