#!/bin/bash
# tools/runall.sh [tier] [seed] [first]  - run every registered check (from number `first`) once, print one line each
cd "$(dirname "$0")/.."
tier=${1:-quick}; seed=${2:-1}; first=${3:-1}
for i in $(seq -w $first 20); do
  id=C$i
  start=$(date +%s)
  out=$(VERIF_SEED=$seed ./check $id $tier 2>&1); rc=$?
  end=$(date +%s)
  echo "$id rc=$rc $((end-start))s :: $(echo "$out" | grep -E "^(C[0-9]+ |VIOLATION|HARNESS)" | head -3 | tr '\n' '|')"
done
