#!/bin/bash
# tools/runall.sh [tier] [seed]  - run every registered check once, print one line each
cd "$(dirname "$0")/.."
tier=${1:-quick}; seed=${2:-1}
for i in $(seq -w 1 20); do
  id=C$i
  start=$(date +%s)
  out=$(VERIF_SEED=$seed ./check $id $tier 2>&1); rc=$?
  end=$(date +%s)
  echo "$id rc=$rc $((end-start))s :: $(echo "$out" | grep -E "^(C[0-9]+ |VIOLATION|HARNESS)" | head -3 | tr '\n' '|')"
done
