#!/usr/bin/env python3
"""Seeded-change tooling.

  tools/seeded.py import <src-dir> <name> <property>   validate a candidate (patch.diff, demo.py, meta.json) in a scratch
                                                    worktree and keep it as seeded/<name>/ when it applies, compiles,
                                                    passes the repo tests, and its demo fails with / passes without it
  tools/seeded.py run <name|all> [check ids...] [--tier quick]
                                                    apply each seeded change in a scratch worktree of /repo HEAD and run
                                                    the given checks (default: the property it breaks) against it via
                                                    SQV_REPO; evidence is redirected so committed evidence is untouched
"""
import json, os, shutil, subprocess, sys, tempfile, time

HERE = os.path.dirname(os.path.dirname(os.path.abspath(__file__)))
REPO = '/repo'
PY = '/venv/bin/python'


def sh(cmd, cwd=None, env=None, timeout=1800):
    p = subprocess.run(cmd, shell=True, cwd=cwd, env=env, capture_output=True, text=True, timeout=timeout)
    return p.returncode, p.stdout + p.stderr


def worktree():
    d = tempfile.mkdtemp(prefix='sqv-wt-', dir='/tmp')
    os.rmdir(d)
    rc, out = sh(f'git -C {REPO} worktree add -q --detach {d} HEAD')
    assert rc == 0, out
    return d


def drop(d):
    sh(f'git -C {REPO} worktree remove --force {d}')
    shutil.rmtree(d, ignore_errors=True)
    sh(f'git -C {REPO} worktree prune')


def tests_pass(tree):
    rc, out = sh(f'{PY} -m pytest -q -p no:cacheprovider -x tests 2>&1 | tail -3', cwd=tree,
                 env={**os.environ, 'PYTHONDONTWRITEBYTECODE': '1'})
    return ('passed' in out and 'failed' not in out and 'error' not in out.lower()), out.strip().splitlines()[-1] if out.strip() else ''


def demo(tree, path):
    rc, out = sh(f'{PY} {path}', env={**os.environ, 'PYTHONPATH': tree, 'PYTHONDONTWRITEBYTECODE': '1'}, timeout=600)
    return rc, out


def cmd_import(src, name, prop):
    patch = os.path.join(src, 'patch.diff')
    dm = os.path.join(src, 'demo.py')
    wt = worktree()
    try:
        rc0, out0 = demo(wt, dm)
        ok0, t0 = tests_pass(wt)
        rc, out = sh(f'git apply {patch}', cwd=wt)
        if rc != 0:
            print(f'{name}: patch does not apply: {out[:300]}')
            return False
        rcc, outc = sh(f'{PY} -c "import smartquery; smartquery.SqParser()"', env={**os.environ, 'PYTHONPATH': wt})
        ok1, t1 = tests_pass(wt)
        rc1, out1 = demo(wt, dm)
        good = rc0 == 0 and ok0 and rcc == 0 and ok1 and rc1 != 0
        print(f'{name}: clean demo rc={rc0} tests={t0!r}; patched import rc={rcc} tests={t1!r} demo rc={rc1} -> {"KEEP" if good else "REJECT"}')
        if not good:
            print(out0[-400:], out1[-400:], outc[-300:])
            return False
        dst = os.path.join(HERE, 'seeded', name)
        os.makedirs(dst, exist_ok=True)
        shutil.copy(patch, os.path.join(dst, 'patch.diff'))
        shutil.copy(dm, os.path.join(dst, 'demo.py'))
        meta = {}
        try:
            meta = json.load(open(os.path.join(src, 'meta.json')))
        except Exception:
            pass
        meta.update({'property': prop, 'base_commit': sh(f'git -C {REPO} rev-parse --short HEAD')[1].strip(),
                     'validated': {'clean_tree': {'demo_exit': rc0, 'tests': t0},
                                   'with_change': {'import_ok': rcc == 0, 'tests': t1, 'demo_exit': rc1,
                                                   'demo_output_tail': out1.strip()[-600:]},
                                   'how': 'scratch git worktree of /repo HEAD; git apply patch.diff; '
                                          '/venv/bin/python -m pytest -q tests; PYTHONPATH=<tree> /venv/bin/python demo.py'}})
        json.dump(meta, open(os.path.join(dst, 'meta.json'), 'w'), indent=1)
        return True
    finally:
        drop(wt)


def cmd_run(names, checks, tier):
    results = {}
    for name in names:
        d = os.path.join(HERE, 'seeded', name)
        if not os.path.isdir(d):
            d = os.path.join(HERE, 'mutants', name)
        meta = json.load(open(os.path.join(d, 'meta.json')))
        ids = checks or [meta['property']]
        wt = worktree()
        ev = tempfile.mkdtemp(prefix='sqv-ev-', dir='/tmp')
        try:
            rc, out = sh(f'git apply {os.path.join(d, "patch.diff")}', cwd=wt)
            if rc != 0:
                print(f'{name}: patch no longer applies to HEAD: {out[:200]}')
                results[name] = {'error': 'patch does not apply'}
                continue
            for cid in ids:
                t0 = time.time()
                rc, out = sh(f'./check {cid} {tier}', cwd=HERE,
                             env={**os.environ, 'SQV_REPO': wt, 'SQV_EVIDENCE_DIR': ev, 'SQV_FOUND_DIR': ev}, timeout=7200)
                dt = time.time() - t0
                viol = [l for l in out.splitlines() if l.startswith('VIOLATION')]
                sigs = [l.strip()[:160] for l in out.splitlines() if l.strip().startswith('signature=')]
                verdict = 'DETECTED' if rc == 1 and viol else ('HARNESS-ERROR' if rc == 2 else 'missed')
                print(f'{name} x {cid} {tier}: {verdict} rc={rc} {dt:.0f}s {sigs[:2]}')
                if verdict == 'HARNESS-ERROR':
                    print(out[-600:])
                results.setdefault(name, {})[cid] = {'verdict': verdict, 'seconds': round(dt), 'signatures': sigs[:3]}
        finally:
            drop(wt)
            shutil.rmtree(ev, ignore_errors=True)
    return results


if __name__ == '__main__':
    if sys.argv[1] == 'import':
        sys.exit(0 if cmd_import(sys.argv[2], sys.argv[3], sys.argv[4]) else 1)
    if sys.argv[1] == 'run':
        args = sys.argv[2:]
        tier = 'quick'
        if '--tier' in args:
            i = args.index('--tier'); tier = args[i + 1]; del args[i:i + 2]
        out_json = None
        if '--json' in args:
            i = args.index('--json'); out_json = args[i + 1]; del args[i:i + 2]
        names = sorted(os.listdir(os.path.join(HERE, 'seeded'))) if args[0] == 'all' else args[0].split(',')
        res = cmd_run(names, args[1:], tier)
        if out_json:
            json.dump(res, open(out_json, 'w'), indent=1)


def report(json_path, out_path):
    res = json.load(open(json_path))
    lines = ['# Seeded changes x checks', '',
             'Generated by `tools/seeded.py run all --json seeded/results.json` + `tools/seeded.py report` (quick tier, VERIF_SEED=1).',
             'Each change is applied in a scratch worktree of /repo HEAD; `DETECTED` = the check exited 1 with a VIOLATION line.', '',
             '| change | breaks | what it does (author\'s summary) | check | verdict | seconds | first signature |', '|---|---|---|---|---|---|---|']
    for name in sorted(res):
        d = os.path.join(HERE, 'seeded', name)
        if not os.path.isdir(d):
            d = os.path.join(HERE, 'mutants', name)
        try:
            meta = json.load(open(os.path.join(d, 'meta.json')))
        except Exception:
            meta = {}
        summ = (meta.get('summary') or '').replace('|', '/').replace('\n', ' ')[:160]
        for cid, r in sorted(res[name].items()) if isinstance(res[name], dict) and 'error' not in res[name] else []:
            sig = (r['signatures'][0] if r.get('signatures') else '').replace('|', '/')[:110]
            lines.append(f"| {name} | {meta.get('property', '?')} | {summ} | {cid} | {r['verdict']} | {r['seconds']} | `{sig}` |")
            if r.get('thorough'):
                t = r['thorough']
                tsig = (t['signatures'][0] if t.get('signatures') else '').replace('|', '/')[:110]
                lines.append(f"| {name} | {meta.get('property', '?')} | (thorough tier) | {cid} | {t['verdict']} | {t['seconds']} | `{tsig}` |")
    det = sum(1 for n in res for c, r in (res[n].items() if 'error' not in res[n] else []) if r['verdict'] == 'DETECTED')
    tot = sum(1 for n in res for c, r in (res[n].items() if 'error' not in res[n] else []))
    lines += ['', f'{det} of {tot} (change, check) pairs detected.']
    open(out_path, 'w').write('\n'.join(lines) + '\n')
    print(f'{det}/{tot} detected -> {out_path}')


if __name__ == '__main__' and sys.argv[1] == 'report':
    report(sys.argv[2], sys.argv[3])


def matrix(json_path, out_path):
    res = json.load(open(json_path))
    ids = [f'C{i:02d}' for i in range(1, 21)]
    lines = ['# Cross-detection matrix (quick tier, VERIF_SEED=1)', '',
             'Rows: seeded changes (the property each was written to break is marked `*`). `D` = detected (exit 1 with a VIOLATION line), '
             '`.` = not detected, `E` = harness error, blank = not run.', '',
             '| change | ' + ' | '.join(i[1:] for i in ids) + ' |', '|---|' + '---|' * len(ids)]
    for name in sorted(res):
        r = res[name]
        if not isinstance(r, dict) or 'error' in r:
            continue
        d = os.path.join(HERE, 'seeded', name)
        if not os.path.isdir(d):
            d = os.path.join(HERE, 'mutants', name)
        try:
            own = json.load(open(os.path.join(d, 'meta.json'))).get('property')
        except Exception:
            own = None
        cells = []
        for i in ids:
            v = r.get(i, {}).get('verdict')
            c = {'DETECTED': 'D', 'missed': '.', 'HARNESS-ERROR': 'E'}.get(v, ' ')
            cells.append(c + ('*' if i == own else ''))
        lines.append(f'| {name} | ' + ' | '.join(cells) + ' |')
    open(out_path, 'w').write('\n'.join(lines) + '\n')
    print('written', out_path)


if __name__ == '__main__' and sys.argv[1] == 'matrix':
    matrix(sys.argv[2], sys.argv[3])
