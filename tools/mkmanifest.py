#!/usr/bin/env python3
"""Regenerates /verif/MANIFEST.json from the table below (run after adding a check)."""
import json, os, sys
HERE = os.path.dirname(os.path.dirname(os.path.abspath(__file__)))
props = [json.loads(l) for l in open(os.path.join(HERE, 'properties.jsonl'))]

CHECKS = {
 'C06': dict(
    technique='exhaustive token-string enumeration + Hypothesis random grammar sentences and one-token mutations, differential against a frozen reference parser',
    text='Bounded-exhaustive plus random differential testing of the shipped LALR parser against an independent precedence-climbing reference parser over a frozen copy of the grammar and operator table: every token-kind string up to length 4 (quick) / 5 (thorough) over a 33-kind alphabet, length 5/6 over reduced alphabets, an operator-pair matrix, and Hypothesis-generated deep sentences with one-token mutations. Exploration: exhaustive within the stated length bound, sampled beyond it.',
    note='Trusted: the reference lexer/parser in sqv/spec (frozen reading of the published grammar and operator table, cross-checked on 39M token strings); exhaustive claims are over token kinds with canonical lexemes.'),
 'C01': dict(
    technique='Hypothesis program generation + metamorphic relations over budgets (every N in 1..K+2), run-time monitor of charges/node entries, multi-eval sessions',
    text='Generated programs (typed statements, probe templates with lambdas driven by map/filter/reduce/sorted, recursion, propagating/swallowing/nesting host callbacks, ast_names bodies) are run unbounded to learn K and then under every budget N in 1..K+2 (boundary+drawn budgets when K>60); a monitor wrapped around Op.eval and every node class counts charges and entries. Checked: at most N-1 operations take effect, ops-limit ParserError exactly at the N-th node evaluation quoting N, probe log and names are the prefix state before operation N, monotone in N, sessions with lambdas stored by earlier evals. Exploration by random generation; exhaustive only over budgets per program.',
    note='Trusted: the harness monitor (wrapping Op.eval/subclass eval at run time); prefix relations are not asserted when a swallowing host is on the call path.'),
 'C02': dict(
    technique='Hypothesis builtin sweep over the live function table with shape tables and hostile pool; deep type-walk oracle on every node result; vetoing sys.addaudithook',
    text='Every builtin in the live table is called with typed and hostile arguments (attribute/format/path-like strings, callables, nested containers, tuples), composed and embedded in program forms, and used as a value; typed programs as well. Every node result, the result and the final names are walked for anything other than plain data, table entries and program lambdas; an audit hook flags and vetoes file/process/network/import/exec/compile events during eval. Exploration.',
    note='Trusted: CPython audit events as the observation point for I/O and dynamic code; lazy imports done by libraries for themselves are tallied only.'),
 'C07': dict(
    technique='Hypothesis type-directed program generator, differential against an independent reference interpreter (value, names, error class, op count)',
    text='Type-directed random programs over every operator, statement form, slice form and deterministic builtin are evaluated by the implementation and by an independent reference interpreter run on the parsed tree; outcome class, canonical value (exact Decimal representation), host names afterwards and the number of charged operations must agree. Exploration.',
    note='Trusted: sqv/spec/refsem.py as the reading of the documented semantics; Decimal arithmetic itself is delegated to Python decimal (C08 covers exactness); cases outside the reference domain are discarded and counted.'),
 'C13': dict(
    technique='Hypothesis sweep of every non-mutator in the live table with shape tables; deep before/after snapshot oracle (structure, order, types, identity)',
    text='Every non-mutating builtin in the live table is called directly and through eval (alone, piped, inside map, with host-supplied objects) with arguments from per-builtin shape tables; a deep snapshot including identities of nested containers must be unchanged afterwards. Exploration.',
    note='Trusted: the list of seven declared mutators from the property statement.'),
}
NOT_YET = 'check not built yet (work in progress; will be claimed once its check is registered)'

checks = []
na = []
for p in props:
    pid = p['id']
    if pid in CHECKS:
        c = CHECKS[pid]
        checks.append({
            'property_id': pid,
            'quick_cmd': f'./check {pid} quick',
            'thorough_cmd': f'./check {pid} thorough',
            'evidence_file': f'evidence/{pid}.json',
            'replay_cmd_template': f'./check {pid} --replay {{path}}',
            'engine': 'sqv',
            'level_claimed': {'category': c.get('category', 'exploration'), 'text': c['text'], 'design_ref': f'DESIGN.md section 4, {pid}'},
            'level_note': c['note'],
            'technique': c['technique'],
        })
    else:
        na.append({'property_id': pid, 'reason': NOT_YET})
m = {
 'version': 1,
 'setup_cmd': './setup.sh',
 'hooks': {
    'guard': 'SMARTQUERY_VERIF',
    'enable': 'no hooks: checks import smartquery from /repo (PYTHONPATH) and wrap Op.eval / FUNCTIONS entries at run time; the guard variable is unused',
    'baseline_off_cmd': 'cd /repo && /venv/bin/python -m pytest -q -p no:cacheprovider tests',
    'source_commits': [],
    'add_only': True,
 },
 'engines': [{'name': 'sqv', 'path': 'sqv/', 'serves_properties': [c['property_id'] for c in checks],
              'kind_free_text': 'property-based testing (Hypothesis), bounded exhaustive enumeration, differential/reference-model oracles, atheris fuzzing'}],
 'checks': checks,
 'not_applicable': na,
 'notes': 'All checks: ./check <ID> quick|thorough, seed from VERIF_SEED, evidence in evidence/<ID>.json, known findings in KNOWN_FINDINGS.txt. Repairs of genuine defects are unguarded "fix:" commits in /repo listed in KNOWN_FINDINGS.txt.',
}
json.dump(m, open(os.path.join(HERE, 'MANIFEST.json'), 'w'), indent=1)
print('checks:', len(checks), 'not_applicable:', len(na))
