#!/usr/bin/env python3
"""Regenerates /verif/MANIFEST.json from the table below (run after adding a check)."""
import json, os, sys
HERE = os.path.dirname(os.path.dirname(os.path.abspath(__file__)))
props = [json.loads(l) for l in open(os.path.join(HERE, 'properties.jsonl'))]

CHECKS = {
 'C06': dict(
    technique='exhaustive token-string enumeration + Hypothesis random grammar sentences and one-token mutations, differential against a frozen reference parser',
    text='Bounded-exhaustive plus random differential testing of the shipped LALR parser against an independent precedence-climbing reference parser over a frozen copy of the grammar and operator table: every token-kind string up to length 4 (quick) / 5 (thorough) over a 33-kind alphabet, length 5/6 over reduced alphabets, an operator-pair matrix, and Hypothesis-generated deep sentences with one-token mutations. Exploration: exhaustive within the stated length bound, sampled beyond it.',
    note='Trusted: the reference lexer/parser in sqv/spec (frozen reading of the published grammar and operator table, cross-checked on 39M token strings); exhaustive claims are over token kinds with canonical lexemes.'),
}
NOT_YET = 'check not built yet (work in progress; will be claimed once its check is registered)'

checks = []
na = []
for p in props:
    pid = p['id']
    if pid in CHECKS:
        c = CHECKS[pid]
        checks.append({
            'property_id': pid,
            'quick_cmd': f'./check {pid} quick',
            'thorough_cmd': f'./check {pid} thorough',
            'evidence_file': f'evidence/{pid}.json',
            'replay_cmd_template': f'./check {pid} --replay {{path}}',
            'engine': 'sqv',
            'level_claimed': {'category': c.get('category', 'exploration'), 'text': c['text'], 'design_ref': f'DESIGN.md section 4, {pid}'},
            'level_note': c['note'],
            'technique': c['technique'],
        })
    else:
        na.append({'property_id': pid, 'reason': NOT_YET})
m = {
 'version': 1,
 'setup_cmd': './setup.sh',
 'hooks': {
    'guard': 'SMARTQUERY_VERIF',
    'enable': 'no hooks: checks import smartquery from /repo (PYTHONPATH) and wrap Op.eval / FUNCTIONS entries at run time; the guard variable is unused',
    'baseline_off_cmd': 'cd /repo && /venv/bin/python -m pytest -q -p no:cacheprovider tests',
    'source_commits': [],
    'add_only': True,
 },
 'engines': [{'name': 'sqv', 'path': 'sqv/', 'serves_properties': [c['property_id'] for c in checks],
              'kind_free_text': 'property-based testing (Hypothesis), bounded exhaustive enumeration, differential/reference-model oracles, atheris fuzzing'}],
 'checks': checks,
 'not_applicable': na,
 'notes': 'All checks: ./check <ID> quick|thorough, seed from VERIF_SEED, evidence in evidence/<ID>.json, known findings in KNOWN_FINDINGS.txt. Repairs of genuine defects are unguarded "fix:" commits in /repo listed in KNOWN_FINDINGS.txt.',
}
json.dump(m, open(os.path.join(HERE, 'MANIFEST.json'), 'w'), indent=1)
print('checks:', len(checks), 'not_applicable:', len(na))
