#!/usr/bin/env python3
"""Regenerates /verif/MANIFEST.json from the table below (run after adding a check)."""
import json, os, sys
HERE = os.path.dirname(os.path.dirname(os.path.abspath(__file__)))
props = [json.loads(l) for l in open(os.path.join(HERE, 'properties.jsonl'))]

CHECKS = {
 'C06': dict(
    technique='exhaustive token-string enumeration + Hypothesis random grammar sentences and one-token mutations, differential against a frozen reference parser',
    text='Bounded-exhaustive plus random differential testing of the shipped LALR parser against an independent precedence-climbing reference parser over a frozen copy of the grammar and operator table: every token-kind string up to length 4 (quick) / 5 (thorough) over a 33-kind alphabet, length 5/6 over reduced alphabets, an operator-pair matrix, and Hypothesis-generated deep sentences with one-token mutations. Exploration: exhaustive within the stated length bound, sampled beyond it.',
    note='Trusted: the reference lexer/parser in sqv/spec (frozen reading of the published grammar and operator table, cross-checked on 39M token strings); exhaustive claims are over token kinds with canonical lexemes.'),
 'C01': dict(
    technique='Hypothesis program generation + metamorphic relations over budgets (every N in 1..K+2), run-time monitor of charges/node entries, multi-eval sessions',
    text='Generated programs (typed statements, probe templates with lambdas driven by map/filter/reduce/sorted, recursion, propagating/swallowing/nesting host callbacks, ast_names bodies) are run unbounded to learn K and then under every budget N in 1..K+2 (boundary+drawn budgets when K>60); a monitor wrapped around Op.eval and every node class counts charges and entries. Checked: at most N-1 operations take effect, ops-limit ParserError exactly at the N-th node evaluation quoting N, probe log and names are the prefix state before operation N, monotone in N, sessions with lambdas stored by earlier evals. Exploration by random generation; exhaustive only over budgets per program. A deep job runs runaway recursion and nestings up to 2500 deep under budgets up to 10^9: the ops-limit error may only come from the N-th started operation.',
    note='Trusted: the harness monitor (wrapping Op.eval/subclass eval at run time); prefix relations are not asserted when a swallowing host is on the call path.'),
 'C02': dict(
    technique='Hypothesis builtin sweep over the live function table with shape tables and hostile pool; deep type-walk oracle on every node result; vetoing sys.addaudithook',
    text='Every builtin in the live table is called with typed and hostile arguments (attribute/format/path-like strings, callables, nested containers, tuples), composed and embedded in program forms, and used as a value; typed programs as well. calls of names that are not in the table (Python attribute and method names) on every kind of receiver are included. Every node result, the result and the final names are walked for anything other than plain data, table entries and program lambdas; an audit hook flags and vetoes file/process/network/import/exec/compile events during eval, and a cold-start job repeats the audit in a fresh interpreter armed before its very first eval. Exploration. Also: calls with one argument swapped for a callable plus surplus arguments, evaluation on a worker thread, and a shared parser that earlier served failing calls binding module-returning host functions.',
    note='Trusted: CPython audit events as the observation point for I/O and dynamic code; lazy imports done by libraries for themselves are tallied only.'),
 'C07': dict(
    technique='Hypothesis type-directed program generator, differential against an independent reference interpreter (value, names, error class, op count)',
    text='Type-directed random programs over every operator, statement form, slice form and deterministic builtin are evaluated by the implementation and by an independent reference interpreter run on the tree that the frozen reference parser derives from the program text; outcome class, canonical value (exact Decimal representation), host names afterwards and the number of charged operations must agree. Exploration.',
    note='Trusted: sqv/spec/refsem.py as the reading of the documented semantics; Decimal arithmetic itself is delegated to Python decimal (C08 covers exactness); cases outside the reference domain are discarded and counted.'),
 'C13': dict(
    technique='Hypothesis sweep of every non-mutator in the live table with shape tables; deep before/after snapshot oracle (structure, order, types, identity)',
    text='Every non-mutating builtin in the live table is called directly and through eval (alone, piped, inside map, with host-supplied objects) with arguments from per-builtin shape tables; a deep snapshot including identities of nested containers must be unchanged afterwards. Exploration. Host dicts are also supplied as defaultdict / OrderedDict / a __missing__ subclass; surplus container arguments.',
    note='Trusted: the list of seven declared mutators from the property statement.'),
 'C03': dict(
    technique='Hypothesis operation sequences from host containers around the cap; run-time monitor invariant (no container beyond the bound) and at-cap exactness on wrapped mutators',
    text='Generated sequences of every container-producing or -mutating path (push/insert/index and compound index assignment, +, +=, *=, nested growth, doubling chains, slices, higher-order and conversion builtins, string-to-list builtins) start from host lists/dicts of length 0,1,5,9998..10001 and strings up to 12000 chars. A second generator sweeps every entry of the live function table (biased to entries the harness has no shape table for) over near-cap containers and huge numeric arguments. A monitor checks every node result and every container reachable from names after each mutating statement against bound = max(10000, longest host value, longest literal) and that element-adding operations at the cap raise ParserError leaving the container unchanged. Exploration. Lambdas returned to the host and called after eval() returned, surplus arguments to push/insert, nodes first evaluated with numbers.',
    note='Trusted: harness monitor; overwrites of existing keys at the cap may fail or succeed; known finding D2b (uncapped strings) excluded by construction and printed as KNOWN-FINDING.'),
 'C04': dict(
    technique='Hypothesis operand pairs/chains over all host numeric types, one eval per step with digit-count oracle, in a CPU-capped helper process',
    text='Operand pairs and chains (1-30 single-statement evals on a persistent mapping) over bool/int/float/Decimal/str/list operands including 1001-digit ints, 40-digit coefficients, exponents to +-999999: every arithmetic operator, compound assignment (name, list slot, dict slot) and numeric builtin; each step is judged right after it ran: * ** *= yield 28-digit Decimals or arithmetic/ParserErrors and never repeat strings/lists; other results have at most max(28, 1+widest argument) digits. Exploration. Closed programs with names omitted / None / {} whose operands come from len/index_of/enumerate; any table entry added after the shape tables were frozen is swept as a numeric builtin.',
    note='Trusted: digit measures (lower bound for results, upper bound for arguments, float arguments by exact expansion, float results exempt as fixed-size); known finding D4 excluded by construction; CPU-cap kills are inconclusive.'),
 'C05': dict(
    technique='Hypothesis pattern/subject/flag generation biased to catastrophic backtracking; CPU-time measurement in a helper process killed by ITIMER_PROF',
    text='Triples for match/match_groups/match_all (taken from the live table): grammar-generated and classic ReDoS patterns (nested/overlapping quantifiers, alternations, counted repeats, back-references, look-around, fuzzy, reverse, slow-to-compile padding), pumped subjects up to 10^5 chars and many-expensive-matches subjects, all flag strings. Each call runs with a cold compile cache in a helper under a CPU cap; CPU time must stay below 1.5 x compile + 0.30 s + linear terms. Exploration of a timing property: shows generated patterns are bounded and finds slow ones; cannot bound the engine for all patterns. Also very long result lists with every flag letter, and subjects that are expensive for Unicode normalisation / case folding.',
    note='Trusted: process CPU time of an isolated helper as the measure; known finding D5 (unbounded compilation) excluded by capping nested counted repeats and printed as KNOWN-FINDING.'),
 'C08': dict(
    technique='Hypothesis expression trees over decimal literals; exact-rational (fractions.Fraction) oracle with own half-even 28-digit rounding',
    text='Expression trees over + - * /, unary minus, comparisons, round/floor/ceil/abs/int/sum/min/max on literals with up to 40+40 digits (ties, values straddling the 28th digit) are compared with exact rational arithmetic rounded half-even to 28 significant digits after every operation; literals must denote exactly their text; comparisons follow rational order. Exploration. Method/pipe forms with a bare leading minus, literal-tail chains (re-association), parsers built or used under other decimal contexts or with a parse cache.',
    note='Trusted: Python fractions and the 25-line rounding function; magnitudes kept within 10^+-200.'),
 'C09': dict(
    technique='bounded exhaustive enumeration of typed expression/statement shapes with logging probes (all truth assignments, every raising probe) + Hypothesis larger shapes; small reference evaluator of order and laziness',
    text='All statement shapes with up to 2 internal nodes (thorough: plus every 7th of the 1.5 million 3-node shapes) over 42 node kinds (including calls of undefined functions, the unparenthesised conditional chain, a lambda body run twice), also with identical probes at several leaves, each under all truth assignments of its probes and with every single probe (or none) raising, are evaluated with logging host probes at the leaves; the probe log, value and type must equal those of a 60-line reference evaluator of shapes. Exhaustive within the bound; larger shapes sampled with Hypothesis. Non-raising cases run again on a parser with a parse cache (one tree under every truth assignment); raising probes raise subclasses of TypeError/KeyError/ValueError/IndexError/ZeroDivisionError/AttributeError in turn.',
    note='Trusted: the shape evaluator in sqv/props/c09.py; probes are host callables.'),
 'C10': dict(
    technique='Hypothesis programs with names bound at builtin/host/parameter level; differential against a reference scope model + invariants on the builtin table and host-invoked lambdas',
    text='Generated programs bind len/sum/x/y/k at up to three levels at once, call lambdas nested and re-entrantly (call, map, sorted, reduce), raise inside higher-order builtins and under a swallowing host callback, use statement-bodied lambdas through ast_names, tiny host mappings equal to a parameter binding, evals without a names mapping, and lambdas carried into a second names mapping. Value, error class and final names must equal the reference scope model; the builtin table keeps identical entries; host calls of program lambdas leave no binding behind. Exploration.',
    note='Trusted: sqv/spec/refsem.py scope model (innermost-first, write to the top scope, lambdas run against the eval in progress); known finding D15 classified by shape and printed as KNOWN-FINDING.'),
 'C11': dict(
    technique='Hypothesis call-history sequences; lock-step of one long-lived parser against a fresh parser per call; metamorphic repeat-stability',
    text='Generated sequences of parse/eval/list_names calls (valid, lexically and syntactically invalid incl. unbalanced brackets and premature end, runtime and ops-limit failures, lazily consumed / abandoned / interleaved list_names generators, lambdas persisting in names and copied between mappings) are applied to one long-lived SqParser and, call by call, to a never-used SqParser with deep-equal arguments; result, exception class+message and names must agree. An identical call repeated 30 times, also after the host changed other mappings, must keep its outcome. Exploration. The shared parser is plain or built with a parse cache, the host shadows builtins in a mapping, and no call may change the thread decimal context in a way that alters later results.',
    note='Trusted: fresh-world answers are memoised by argument contents when names hold no callables.'),
 'C12': dict(
    technique='Hypothesis assignment/mutation/read sequences; differential against reference value semantics + object-identity disjointness invariant checked by a run-time monitor',
    text='Generated sequences over nested list/dict/tuple values with shared sub-objects and host-held objects: the four assignment forms, then mutations through either side, a host-side mutation between two evals, then reads. Results, names and the host objects must equal the reference value semantics; right after every assignment-like node a monitor checks that mutable objects reachable from the stored value (for += on lists: the appended elements) are disjoint from everything else reachable. Exploration. Host functions with parsed multi-statement bodies (ast_names), host dicts with non-string keys; the reference runs on the grammar-derived tree.',
    note='Trusted: the harness monitor reading VMState.names.scopes (falls back to the host mapping); self-containing values are skipped.'),
 'C14': dict(
    technique='bounded exhaustive DFS over an operation alphabet + Hypothesis RuleBasedStateMachine; Python list/dict reference model with explicit casts',
    text='All operation sequences up to depth 3 (quick) / 4 (thorough) over 70 concrete list/dict operations (incl. Python-int keys, fresh-literal and row operations; the populated state runs on a parser with a parse cache) from an empty and a populated state, and random RuleBasedStateMachine sequences up to 60 steps with generated keys/indices/values, each step a tiny eval on a persistent mapping; after every step the observable result, the error class for missing key / out-of-range read / pop on empty, and the full container contents must equal the Python model with int()/str() casts. Exhaustive within the depth bound.',
    note='Trusted: the 150-line model in sqv/props/c14.py; failing writes may raise anything or be no-ops as long as the container is unchanged.'),
 'C15': dict(
    technique='Hypothesis programs x meaning-preserving rewrites (tree-level and token-gap level), metamorphic tree equality; every-position sweeps',
    text='Generated programs are rendered canonically and rewritten: spaces/tabs, comments, LF/CRLF breaks inside brackets, ; vs newline, blank statements, CRLF, trailing commas in every call/method/pipe/list/dict, redundant parentheses around any sub-expression, r.f(a) / r | f(a) / f(r, a) conversion - random subsets and, one at a time, every applicable position. The implementation must parse original and rewritten text to equal trees; the frozen reference parser certifies each rewrite preserves meaning. Exploration.',
    note='Trusted: reference lexer/parser for the harness self-check and for locating positions.'),
 'C16': dict(
    technique='atheris coverage-guided fuzzing with an in-target reference-classification oracle + Hypothesis text/truncations/mutations + placed failures judged by the reference interpreter',
    text='(a) 8 atheris processes (empty and seeded corpus, dictionary) and Hypothesis-generated arbitrary Unicode, hostile atoms, truncations at every token boundary, unbalanced brackets, unterminated strings feed parse, list_names and eval: nothing but an Exception may escape; lexically invalid text must give ParserError from all three, grammar-rejected text from parse and eval. (b) Typed programs with a placed failure (undefined variable/function/method/pipe, compound assignment to undefined target, missing key, bad index, pop on empty, at-cap growth, exhausted budget) at a drawn position: whenever the reference interpreter ends in a language-level failure the implementation must raise ParserError. Exploration.',
    note='Trusted: reference lexer/parser/interpreter; RecursionError/MemoryError on valid deep programs are ordinary Exceptions; libFuzzer campaigns are only approximately reproducible, saved inputs are the reproducible unit.'),
 'C17': dict(
    technique='Hypothesis call sequences; lock-step of an uncached parser against dict / LRU(2) / always-evicting / pre-warmed caches; deep attribute snapshot of cached trees',
    text='Generated sequences of parse/eval calls over repeated, whitespace-near-duplicate and failing sources, names that shadow builtins, varying budgets, with the host mutating every mutable result, are applied to five parsers differing only in their cache mapping; results, exception class+message, names and parsed trees must agree call by call, and a deep snapshot (all instance attributes) of every cached tree must be unchanged by every eval. Exploration. Half of the source pool are generated typed programs; the host changes module-level settings (CAST_DICT_KEYS_TO_STRINGS, MAX_ARRAY_SIZE, REGEX_TIMEOUT) between calls.',
    note='Trusted: cache mappings are well-behaved MutableMappings.'),
 'C18': dict(
    technique='Hypothesis hostile-atom texts and identifier-renamed programs; differential against the reference lexer, tree-name containment, recording host mapping',
    text='Texts from ~110 hostile atoms and parsable programs whose identifiers in every role are renamed into %...% names with spaces/dots/operators/quotes/# and keyword-adjacent names: list_names must equal the reference lexer NAME stream (ParserError when lexically invalid), equal the set of names in the parsed tree up to the implicit sugar helpers, cover every key an eval requests from a recording host mapping (with all names missing and with all defined), and survive lazy/interleaved consumption. Exploration.',
    note='Trusted: reference lexer; the recording mapping is a dict subclass.'),
 'C19': dict(
    technique='Hypothesis inputs x 200 seeded draws each; range / identity / permutation oracles',
    text='rand(), rand(a, b) over integer-valued bounds of every host numeric type (Decimal literals, ints, Decimals like 5.0 / 5E+2, negative, equal, up to 10^30), rand(list), shuffle(list) incl. empty/one-element/duplicate/nested lists, 200 draws per input with the random module re-seeded per draw: range, integrality, element identity, new-list permutation and argument immutability are checked. Exploration.',
    note='Trusted: Python random as the entropy source (re-seeded by the harness).'),
 'C20': dict(
    technique='Hypothesis multi-statement programs made invalid by construction at a known token; message oracle from the reference lexer physical line; all truncations',
    text='Valid programs mixing \\n, \\r\\n, ;, blank lines, comments and multi-line bracketed literals are made invalid by inserting an operand after an operand, a binary-only operator after an operator/opener/separator, an unmatched closer or a doubled comma at a drawn position, so the offending token and its physical line are known independently; the ParserError message must name that token and line. Every rejected truncation of an accepted program must be reported as an unexpected end of input. Exploration.',
    note='Trusted: LR parsers report the first non-viable token; reference lexer/parser to pick positions and recognise accepted truncations.'),
}
NOT_YET = 'check not built yet (work in progress; will be claimed once its check is registered)'

checks = []
na = []
for p in props:
    pid = p['id']
    if pid in CHECKS:
        c = CHECKS[pid]
        checks.append({
            'property_id': pid,
            'quick_cmd': f'./check {pid} quick',
            'thorough_cmd': f'./check {pid} thorough',
            'evidence_file': f'evidence/{pid}.json',
            'replay_cmd_template': f'./check {pid} --replay {{path}}',
            'engine': 'sqv',
            'level_claimed': {'category': c.get('category', 'exploration'), 'text': c['text'], 'design_ref': f'DESIGN.md section 4, {pid}'},
            'level_note': c['note'],
            'technique': c['technique'],
        })
    else:
        na.append({'property_id': pid, 'reason': NOT_YET})
m = {
 'version': 1,
 'setup_cmd': './setup.sh',
 'hooks': {
    'guard': 'SMARTQUERY_VERIF',
    'enable': 'no hooks: checks import smartquery from /repo (PYTHONPATH) and wrap Op.eval / FUNCTIONS entries at run time; the guard variable is unused',
    'baseline_off_cmd': 'cd /repo && /venv/bin/python -m pytest -q -p no:cacheprovider tests',
    'source_commits': [],
    'add_only': True,
 },
 'engines': [{'name': 'sqv', 'path': 'sqv/', 'serves_properties': [c['property_id'] for c in checks],
              'kind_free_text': 'property-based testing (Hypothesis), bounded exhaustive enumeration, differential/reference-model oracles, atheris fuzzing'}],
 'checks': checks,
 'not_applicable': na,
 'notes': 'All checks: ./check <ID> quick|thorough, seed from VERIF_SEED, evidence in evidence/<ID>.json, known findings in KNOWN_FINDINGS.txt. Repairs of genuine defects are unguarded "fix:" commits in /repo listed in KNOWN_FINDINGS.txt.',
}
json.dump(m, open(os.path.join(HERE, 'MANIFEST.json'), 'w'), indent=1)
print('checks:', len(checks), 'not_applicable:', len(na))
